package keeper_test

// F2 (C10, C01, C16): a deposit addressed to a bridge id that does not exist must be rejected.

import (
	"testing"

	"cosmossdk.io/math"
	sdk "github.com/cosmos/cosmos-sdk/types"

	"github.com/initia-labs/OPinit/x/ophost/keeper"
	"github.com/initia-labs/OPinit/x/ophost/types"
)

func TestVerifKnown_F2_DepositToMissingBridge(t *testing.T) {
	ctx, input := createDefaultTestInput(t)
	ms := keeper.NewMsgServerImpl(input.OPHostKeeper)
	amount := sdk.NewCoin(sdk.DefaultBondDenom, math.NewInt(100))
	input.Faucet.Fund(ctx, addrs[1], amount)
	res, err := ms.InitiateTokenDeposit(ctx, types.NewMsgInitiateTokenDeposit(addrsStr[1], 7, "l2_addr", amount, nil))
	if err == nil {
		bal := input.BankKeeper.GetBalance(ctx, types.BridgeAddress(7), sdk.DefaultBondDenom)
		next, _ := input.OPHostKeeper.GetNextL1Sequence(ctx, 7)
		t.Fatalf("deposit into non-existent bridge 7 accepted: sequence=%d, escrow(7)=%s, next sequence of the future bridge=%d", res.Sequence, bal, next)
	}
}
