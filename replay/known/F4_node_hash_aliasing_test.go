package types_test

// F4 (C17): computing the root from a proof list must not modify the caller's proof bytes and
// must not depend on how the caller laid the proofs out in memory.

import (
	"bytes"
	"testing"

	"github.com/initia-labs/OPinit/x/ophost/types"
)

func TestVerifKnown_F4_ProofAliasing(t *testing.T) {
	// three 32-byte proofs as sub-slices of one 96-byte buffer (what a decoder may well produce)
	buf := make([]byte, 96)
	for i := range buf {
		buf[i] = byte(255 - i)
	}
	orig := append([]byte(nil), buf...)
	shared := [][]byte{buf[0:32], buf[32:64], buf[64:96]}
	separate := [][]byte{append([]byte(nil), buf[0:32]...), append([]byte(nil), buf[32:64]...), append([]byte(nil), buf[64:96]...)}
	var leaf [32]byte // all zero: smaller than every proof, so append(data, proof...) / append(proof, data...) both occur
	for i := range leaf {
		leaf[i] = byte(i)
	}
	r1 := types.GenerateRootHashFromProofs(leaf, separate)
	r2 := types.GenerateRootHashFromProofs(leaf, shared)
	if !bytes.Equal(buf, orig) {
		t.Errorf("the caller's proof buffer was modified")
	}
	if r1 != r2 {
		t.Errorf("root depends on memory layout: %x (separate) vs %x (shared buffer)", r1, r2)
	}
	// direct: node hash with a first operand that has spare capacity
	a := make([]byte, 32, 64)
	b := make([]byte, 32)
	for i := range a {
		a[i], b[i] = 1, 2
	}
	tail := a[32:64]
	before := append([]byte(nil), tail...)
	_ = types.GenerateNodeHash(a, b)
	if !bytes.Equal(tail, before) {
		t.Errorf("GenerateNodeHash wrote into the spare capacity of its argument")
	}
}
