package keeper_test

// F6, F7, F8 (C14): executor-change plans in the corner cases the property quantifies over.
// A model of the consensus engine applies every EndBlock batch under CometBFT's rules (no key twice in a batch,
// power 0 removes, otherwise set) and is compared with L2 state after the plan height.
// Each test asserts the property, so it FAILS while the defect is present.

import (
	"encoding/base64"
	"fmt"
	"testing"

	abci "github.com/cometbft/cometbft/abci/types"
	"github.com/cosmos/cosmos-sdk/crypto/keys/ed25519"
	cryptotypes "github.com/cosmos/cosmos-sdk/crypto/types"
	sdk "github.com/cosmos/cosmos-sdk/types"
	testutilsims "github.com/cosmos/cosmos-sdk/testutil/sims"
	authtypes "github.com/cosmos/cosmos-sdk/x/auth/types"

	"github.com/initia-labs/OPinit/x/opchild"
	"github.com/initia-labs/OPinit/x/opchild/keeper"
	"github.com/initia-labs/OPinit/x/opchild/types"
)

type verifEngine map[string]int64 // consensus key (string of the proto key) -> power

func (e verifEngine) apply(t *testing.T, what string, ups []abci.ValidatorUpdate) {
	seen := map[string]bool{}
	for _, u := range ups {
		pk := u.PubKey
		k := pk.String()
		if seen[k] {
			t.Errorf("%s: the batch lists consensus key %s twice (CometBFT rejects such a batch)", what, k)
		}
		seen[k] = true
		if u.Power == 0 {
			delete(e, k)
		} else {
			e[k] = u.Power
		}
	}
}

func verifPlanKeyJSON(pk cryptotypes.PubKey) string {
	return fmt.Sprintf(`{"@type":"/cosmos.crypto.ed25519.PubKey","key":"%s"}`, base64.StdEncoding.EncodeToString(pk.Bytes()))
}

func verifEndBlock(t *testing.T, ctx sdk.Context, k *keeper.Keeper, h int64, e verifEngine) sdk.Context {
	ctx = ctx.WithBlockHeight(h)
	ups, err := opchild.EndBlocker(ctx, k)
	if err != nil {
		t.Fatalf("EndBlocker at height %d failed: %v", h, err)
	}
	e.apply(t, fmt.Sprintf("height %d", h), ups)
	return ctx
}

func verifCheckOnlyPlanValidator(t *testing.T, ctx sdk.Context, k *keeper.Keeper, e verifEngine, planOp sdk.ValAddress, planKey cryptotypes.PubKey) {
	vals, err := k.GetAllValidators(ctx)
	if err != nil {
		t.Fatal(err)
	}
	if len(vals) != 1 || vals[0].OperatorAddress != planOp.String() {
		t.Errorf("L2 state after the plan height holds %d validators, want exactly the plan's", len(vals))
	}
	for _, v := range vals {
		pk, _ := v.ConsPubKey()
		if v.OperatorAddress == planOp.String() && !pk.Equals(planKey) {
			t.Errorf("L2 state records another consensus key for the plan's operator")
		}
	}
	tmpk, err := types.NewValidator(planOp, planKey, "x")
	if err != nil {
		t.Fatal(err)
	}
	wantPk := tmpk.ABCIValidatorUpdate().PubKey
	want := wantPk.String()
	if len(e) != 1 || e[want] != 1 {
		t.Errorf("the consensus engine ends up with %d validator(s) %v, want exactly the plan's key with power 1", len(e), e)
	}
}

func verifBond(t *testing.T, ctx sdk.Context, input TestKeepers, e verifEngine, ops []sdk.ValAddress, pks []cryptotypes.PubKey) sdk.Context {
	ms := keeper.NewMsgServerImpl(&input.OPChildKeeper)
	auth, err := input.AccountKeeper.AddressCodec().BytesToString(authtypes.NewModuleAddress(types.ModuleName))
	if err != nil {
		t.Fatal(err)
	}
	for i := range ops {
		msg, err := types.NewMsgAddValidator(fmt.Sprintf("v%d", i), auth, ops[i].String(), pks[i])
		if err != nil {
			t.Fatal(err)
		}
		if _, err := ms.AddValidator(ctx, msg); err != nil {
			t.Fatal(err)
		}
	}
	return verifEndBlock(t, ctx, &input.OPChildKeeper, 10, e)
}

// F6: the plan's operator address is already a bonded validator (with another key).
func TestVerifKnown_F6_PlanReusesOperator(t *testing.T) {
	cctx, input := createDefaultTestInput(t)
	ctx := sdk.UnwrapSDKContext(cctx)
	e := verifEngine{}
	pks := testutilsims.CreateTestPubKeys(2)
	ctx = verifBond(t, ctx, input, e, []sdk.ValAddress{valAddrs[0], valAddrs[1]}, pks)
	planKey := ed25519.GenPrivKey().PubKey()
	if err := input.OPChildKeeper.RegisterExecutorChangePlan(1, 20, valAddrsStr[0], "next", verifPlanKeyJSON(planKey), "info", []string{addrsStr[0]}); err != nil {
		t.Fatal(err)
	}
	ctx = verifEndBlock(t, ctx, &input.OPChildKeeper, 20, e)
	verifCheckOnlyPlanValidator(t, ctx, &input.OPChildKeeper, e, valAddrs[0], planKey)
}

// F7: the plan reuses the consensus key of a bonded validator under a new operator address.
func TestVerifKnown_F7_PlanReusesKey(t *testing.T) {
	cctx, input := createDefaultTestInput(t)
	ctx := sdk.UnwrapSDKContext(cctx)
	e := verifEngine{}
	pks := testutilsims.CreateTestPubKeys(2)
	ctx = verifBond(t, ctx, input, e, []sdk.ValAddress{valAddrs[0], valAddrs[1]}, pks)
	if err := input.OPChildKeeper.RegisterExecutorChangePlan(1, 20, valAddrsStr[2], "next", verifPlanKeyJSON(pks[0]), "info", []string{addrsStr[0]}); err != nil {
		t.Fatal(err)
	}
	ctx = verifEndBlock(t, ctx, &input.OPChildKeeper, 20, e)
	verifCheckOnlyPlanValidator(t, ctx, &input.OPChildKeeper, e, valAddrs[2], pks[0])
}

// F8: the plan is applied when the number of validators equals MaxValidators.
func TestVerifKnown_F8_PlanAtValidatorCap(t *testing.T) {
	cctx, input := createDefaultTestInput(t)
	ctx := sdk.UnwrapSDKContext(cctx)
	e := verifEngine{}
	params, err := input.OPChildKeeper.GetParams(ctx)
	if err != nil {
		t.Fatal(err)
	}
	params.MaxValidators = 2
	if err := input.OPChildKeeper.SetParams(ctx, params); err != nil {
		t.Fatal(err)
	}
	pks := testutilsims.CreateTestPubKeys(2)
	ctx = verifBond(t, ctx, input, e, []sdk.ValAddress{valAddrs[0], valAddrs[1]}, pks)
	planKey := ed25519.GenPrivKey().PubKey()
	if err := input.OPChildKeeper.RegisterExecutorChangePlan(1, 20, valAddrsStr[2], "next", verifPlanKeyJSON(planKey), "info", []string{addrsStr[0]}); err != nil {
		t.Fatal(err)
	}
	ctx = verifEndBlock(t, ctx, &input.OPChildKeeper, 20, e)
	verifCheckOnlyPlanValidator(t, ctx, &input.OPChildKeeper, e, valAddrs[2], planKey)
	p2, _ := input.OPChildKeeper.GetParams(ctx)
	if len(p2.BridgeExecutors) != 1 || p2.BridgeExecutors[0] != addrsStr[0] {
		t.Errorf("bridge executors after the plan: %v", p2.BridgeExecutors)
	}
}
