package keeper_test

// F3 (C04): a transfer whose amount does not fit in 64 bits can never be claimed on L1
// (FinalizeTokenWithdrawal converts the amount with Uint64(), which panics), so neither
// chain may accept it.

import (
	"testing"

	"cosmossdk.io/math"
	sdk "github.com/cosmos/cosmos-sdk/types"

	opchildtypes "github.com/initia-labs/OPinit/x/opchild/types"
	"github.com/initia-labs/OPinit/x/ophost/types"
)

func TestVerifKnown_F3_AmountOverflow(t *testing.T) {
	_, input := createDefaultTestInput(t)
	ac := input.AccountKeeper.AddressCodec()
	big := math.NewIntFromUint64(1 << 63).MulRaw(2) // 2^64
	coin := sdk.NewCoin("uinit", big)
	small := types.NewMsgInitiateTokenDeposit(addrsStr[0], 1, "l2_addr", sdk.NewCoin("uinit", math.NewInt(5)), nil)
	if err := small.Validate(ac); err != nil {
		t.Fatalf("fixture broken: %v", err)
	}
	dep := types.NewMsgInitiateTokenDeposit(addrsStr[0], 1, "l2_addr", coin, nil)
	if err := dep.Validate(ac); err == nil {
		t.Errorf("L1 MsgInitiateTokenDeposit.Validate accepted amount 2^64 (its refund could never be claimed)")
	}
	wd := opchildtypes.NewMsgInitiateTokenWithdrawal(addrsStr[0], addrsStr[1], sdk.NewCoin("l2/abc", big))
	if err := wd.Validate(ac); err == nil {
		t.Errorf("L2 MsgInitiateTokenWithdrawal.Validate accepted amount 2^64 (the claim on L1 panics in Uint64())")
	}
	func() {
		defer func() {
			if r := recover(); r != nil {
				t.Logf("as expected the L1 claim path cannot represent the amount: %v", r)
			}
		}()
		_ = big.Uint64()
	}()
}
