package keeper_test

// F9 candidate (C04/C08/C09): a MsgInitiateTokenWithdrawal executed INSIDE a deposit hook burns the coins and
// consumes an L2 sequence; does the withdrawal event reach the transaction's event manager? If not, the withdrawal is
// invisible to the executor and can never be claimed on L1.

import (
	"encoding/hex"
	"testing"

	"cosmossdk.io/math"
	cryptotypes "github.com/cosmos/cosmos-sdk/crypto/types"
	sdk "github.com/cosmos/cosmos-sdk/types"
	"golang.org/x/crypto/sha3"

	"github.com/initia-labs/OPinit/x/opchild/keeper"
	"github.com/initia-labs/OPinit/x/opchild/types"
)

func TestVerifKnown_F9_HookWithdrawalEvent(t *testing.T) {
	ctx, input := createDefaultTestInput(t)
	ms := keeper.NewMsgServerImpl(&input.OPChildKeeper)
	bz := sha3.Sum256([]byte("test_token"))
	denom := "l2/" + hex.EncodeToString(bz[:])
	priv, _, addr := keyPubAddr()
	msg := types.NewMsgFinalizeTokenDeposit(addrsStr[0], addrsStr[1], addr.String(), sdk.NewCoin(denom, math.ZeroInt()), 1, 1, "test_token", nil)
	if _, err := ms.FinalizeTokenDeposit(ctx, msg); err != nil {
		t.Fatal(err)
	}
	acc := input.AccountKeeper.GetAccount(ctx, addr)
	privs, accNums, accSeqs := []cryptotypes.PrivKey{priv}, []uint64{acc.GetAccountNumber()}, []uint64{0}
	wd := types.NewMsgInitiateTokenWithdrawal(addr.String(), addrsStr[3], sdk.NewCoin(denom, math.NewInt(40)))
	signedTxBz, err := input.EncodingConfig.TxConfig.TxEncoder()(generateTestTx(t, input, []sdk.Msg{wd}, privs, accNums, accSeqs, sdk.UnwrapSDKContext(ctx).ChainID()))
	if err != nil {
		t.Fatal(err)
	}
	supplyBefore := input.BankKeeper.GetSupply(ctx, denom).Amount
	seqBefore, _ := input.OPChildKeeper.GetNextL2Sequence(ctx)
	ctx = sdk.UnwrapSDKContext(ctx).WithEventManager(sdk.NewEventManager())
	msg = types.NewMsgFinalizeTokenDeposit(addrsStr[0], addrsStr[1], addr.String(), sdk.NewCoin(denom, math.NewInt(100)), 2, 1, "test_token", signedTxBz)
	if _, err := ms.FinalizeTokenDeposit(ctx, msg); err != nil {
		t.Fatal(err)
	}
	supplyAfter := input.BankKeeper.GetSupply(ctx, denom).Amount
	seqAfter, _ := input.OPChildKeeper.GetNextL2Sequence(ctx)
	burned := supplyBefore.Add(math.NewInt(100)).Sub(supplyAfter)
	t.Logf("minted 100, burned by the hook withdrawal %s, l2 sequence %d -> %d", burned, seqBefore, seqAfter)
	found := false
	for _, ev := range sdk.UnwrapSDKContext(ctx).EventManager().Events() {
		t.Logf("event %s", ev.Type)
		if ev.Type == types.EventTypeInitiateTokenWithdrawal {
			found = true
		}
	}
	if burned.IsPositive() && !found {
		t.Errorf("REPLAY-CONFIRMED: the hook burned %s%s and consumed L2 sequence %d but no %s event reached the transaction: the withdrawal can never be proven on L1", burned, denom, seqBefore, types.EventTypeInitiateTokenWithdrawal)
	}
}
