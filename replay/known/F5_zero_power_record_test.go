package keeper_test

// F5 (C13): a validator added and removed within one block must be gone from state by the end of
// that block; on the unfixed tree its power-0 record is never purged, blocks re-adding the same
// operator / consensus key and counts against MaxValidators.

import (
	"testing"

	testutilsims "github.com/cosmos/cosmos-sdk/testutil/sims"
	authtypes "github.com/cosmos/cosmos-sdk/x/auth/types"

	"github.com/initia-labs/OPinit/x/opchild/keeper"
	"github.com/initia-labs/OPinit/x/opchild/types"
)

func TestVerifKnown_F5_ZeroPowerRecord(t *testing.T) {
	ctx, input := createDefaultTestInput(t)
	ms := keeper.NewMsgServerImpl(&input.OPChildKeeper)
	pks := testutilsims.CreateTestPubKeys(1)
	moduleAddr, err := input.AccountKeeper.AddressCodec().BytesToString(authtypes.NewModuleAddress(types.ModuleName))
	if err != nil {
		t.Fatal(err)
	}
	add, err := types.NewMsgAddValidator("val", moduleAddr, valAddrsStr[0], pks[0])
	if err != nil {
		t.Fatal(err)
	}
	if _, err := ms.AddValidator(ctx, add); err != nil {
		t.Fatal(err)
	}
	rm, _ := types.NewMsgRemoveValidator(moduleAddr, valAddrsStr[0])
	if _, err := ms.RemoveValidator(ctx, rm); err != nil {
		t.Fatal(err)
	}
	// end of the block
	updates, err := input.OPChildKeeper.BlockValidatorUpdates(ctx)
	if err != nil {
		t.Fatal(err)
	}
	if len(updates) != 0 {
		t.Fatalf("unexpected updates %v", updates)
	}
	if v, found := input.OPChildKeeper.GetValidator(ctx, valAddrs[0]); found {
		t.Errorf("validator removed in the block that added it is still in state after the block (power %d)", v.ConsPower)
	}
	if _, err := ms.AddValidator(ctx, add); err != nil {
		t.Errorf("the same operator / key cannot be added again: %v", err)
	}
}
