package types_test

// F1 (C05): a bridge configuration with a negative finalization period must be rejected.

import (
	"testing"
	"time"

	"github.com/cosmos/cosmos-sdk/codec/address"
	"github.com/initia-labs/OPinit/x/ophost/types"
)

func TestVerifKnown_F1_NegativePeriod(t *testing.T) {
	ac := address.NewBech32Codec("init")
	addr, _ := ac.BytesToString(make([]byte, 20))
	cfg := types.BridgeConfig{
		Challenger: addr, Proposer: addr,
		BatchInfo:             types.BatchInfo{Submitter: addr, ChainType: types.BatchInfo_CHAIN_TYPE_INITIA},
		SubmissionInterval:    time.Second,
		FinalizationPeriod:    -time.Second,
		SubmissionStartHeight: 1,
	}
	if err := cfg.Validate(ac); err == nil {
		t.Fatalf("Validate accepted FinalizationPeriod=%v", cfg.FinalizationPeriod)
	}
	if err := cfg.ValidateWithNoAddrValidation(); err == nil {
		t.Fatalf("ValidateWithNoAddrValidation accepted FinalizationPeriod=%v", cfg.FinalizationPeriod)
	}
}
