package keeper_test

// F10 (C13): with HistoricalEntries reduced to 0 the pruning loop of TrackHistoricalInfo starts at the current height,
// finds no record there (it is written at the end of the function) and stops at once: the records of earlier heights are
// never pruned although the configured retention is zero. The test asserts the property, so it FAILS while the defect exists.

import (
	"testing"

	sdk "github.com/cosmos/cosmos-sdk/types"

	"github.com/initia-labs/OPinit/x/opchild"
)

func TestVerifKnown_F10_HistoryNotPrunedAtZeroRetention(t *testing.T) {
	cctx, input := createDefaultTestInput(t)
	ctx := sdk.UnwrapSDKContext(cctx)
	k := &input.OPChildKeeper
	params, err := k.GetParams(ctx)
	if err != nil {
		t.Fatal(err)
	}
	params.HistoricalEntries = 2
	if err := k.SetParams(ctx, params); err != nil {
		t.Fatal(err)
	}
	for h := int64(1); h <= 3; h++ {
		if err := opchild.BeginBlocker(ctx.WithBlockHeight(h), k); err != nil {
			t.Fatal(err)
		}
	}
	if _, err := k.GetHistoricalInfo(ctx, 1); err == nil {
		t.Fatalf("height 1 should have been pruned under a retention of 2")
	}
	params.HistoricalEntries = 0
	if err := k.SetParams(ctx, params); err != nil {
		t.Fatal(err)
	}
	if err := opchild.BeginBlocker(ctx.WithBlockHeight(4), k); err != nil {
		t.Fatal(err)
	}
	for h := int64(0); h <= 4; h++ {
		if _, err := k.GetHistoricalInfo(ctx, h); err == nil {
			t.Errorf("REPLAY-CONFIRMED: retention is 0 but the historical record of height %d is still stored after the begin blocker of height 4", h)
		}
	}
}
