#!/bin/sh
# usage: run_overlay.sh <package dir relative to the repository> <test file> <-run regex> [repo root]
# Injects <test file> into the package with `go test -overlay` (nothing is written to the repository).
set -e
PKG="$1"; FILE="$2"; RUN="$3"; REPO="${4:-/repo}"
TMP=$(mktemp -d /tmp/verif-replay.XXXXXX)
trap 'rm -rf "$TMP"' EXIT
NAME=zz_verif_replay_test.go
printf '{"Replace":{"%s/%s/%s":"%s"}}\n' "$REPO" "$PKG" "$NAME" "$(readlink -f "$FILE")" > "$TMP/ov.json"
cd "$REPO"
GOFLAGS= GOPROXY=off GOSUMDB=off GOTOOLCHAIN=local go test -overlay "$TMP/ov.json" -vet=off -count=1 -timeout 120s -run "$RUN" "./$PKG"
