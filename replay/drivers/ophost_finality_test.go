package keeper_test

// Replay driver: finality window (C05). Input: block time, L1 block time of the output and finalization period, all in
// nanoseconds, taken from the verifier's counterexample. Runs the real IsFinalized and compares with the property's own
// statement: final iff  floor(now/1s) >= floor((l1time + period)/1s)  over the mathematical integers.

import (
	"encoding/json"
	"math/big"
	"os"
	"testing"
	"time"

	sdk "github.com/cosmos/cosmos-sdk/types"

	"github.com/initia-labs/OPinit/x/ophost/types"
)

func verifReplayInput(t *testing.T) map[string]string {
	m := map[string]string{}
	data, err := os.ReadFile(os.Getenv("VERIF_REPLAY_INPUT"))
	if err != nil {
		t.Skip("no replay input")
	}
	if err := json.Unmarshal(data, &m); err != nil {
		t.Fatal(err)
	}
	return m
}

func verifBig(t *testing.T, s string) *big.Int {
	v, ok := new(big.Int).SetString(s, 10)
	if !ok {
		t.Skipf("REPLAY-SKIPPED: %q is not an integer", s)
	}
	return v
}

func verifFloorDiv(a *big.Int, d int64) *big.Int {
	q, m := new(big.Int).DivMod(a, big.NewInt(d), new(big.Int)) // Euclidean: floor for a positive divisor
	_ = m
	return q
}

func verifFinalityProbe(t *testing.T, now, l1, period *big.Int) (confirmed bool) {
	if !now.IsInt64() || !l1.IsInt64() || !period.IsInt64() {
		return false
	}
	cctx, input := createDefaultTestInput(t)
	ctx := sdk.UnwrapSDKContext(cctx).WithBlockTime(time.Unix(0, now.Int64()).UTC())
	cfg := types.BridgeConfig{
		Challenger: addrsStr[0], Proposer: addrsStr[1], SubmissionInterval: time.Second, FinalizationPeriod: time.Duration(period.Int64()),
		SubmissionStartHeight: 1, BatchInfo: types.BatchInfo{Submitter: addrsStr[2], ChainType: types.BatchInfo_CHAIN_TYPE_INITIA},
	}
	if err := input.OPHostKeeper.SetBridgeConfig(ctx, 1, cfg); err != nil {
		return false // a config the chain cannot store (e.g. non-positive period): not a reachable input
	}
	out := types.Output{OutputRoot: make([]byte, 32), L1BlockNumber: 1, L1BlockTime: time.Unix(0, l1.Int64()).UTC(), L2BlockNumber: 1}
	if err := input.OPHostKeeper.SetOutputProposal(ctx, 1, 1, out); err != nil {
		return false
	}
	got, err := input.OPHostKeeper.IsFinalized(ctx, 1, 1)
	if err != nil {
		t.Fatalf("REPLAY-ERROR: %v", err)
	}
	want := verifFloorDiv(now, 1e9).Cmp(verifFloorDiv(new(big.Int).Add(l1, period), 1e9)) >= 0
	if got != want {
		t.Errorf("REPLAY-CONFIRMED: IsFinalized(now=%s ns, l1time=%s ns, period=%s ns) = %v on the real code, the property requires %v", now, l1, period, got, want)
		return true
	}
	return false
}

func TestVerifReplay_Finality(t *testing.T) {
	in := verifReplayInput(t)
	now, l1, period := verifBig(t, in["now"]), verifBig(t, in["l1time"]), verifBig(t, in["period"])
	// first the verifier's own counterexample
	if verifFinalityProbe(t, now, l1, period) {
		return
	}
	// the model may lie outside what a test context can represent (times beyond int64 nanoseconds, periods a stored
	// config cannot have): probe the boundary inputs of the window around valid periods as well
	const s = int64(time.Second)
	for _, p := range []int64{1, s - 1, s, 10 * s, 7 * 24 * 3600 * s, 1<<63 - 1} {
		for _, l := range []int64{0, s / 2, s + s/2, 1_700_000_000 * s} {
			for _, d := range []int64{-s - 1, -s, -1, 0, 1, s - 1, s} {
				n := new(big.Int).Add(big.NewInt(l), big.NewInt(p))
				n.Add(n, big.NewInt(d))
				for _, nn := range []*big.Int{n, big.NewInt(l), big.NewInt(0)} {
					if nn.Sign() >= 0 && verifFinalityProbe(t, nn, big.NewInt(l), big.NewInt(p)) {
						return
					}
				}
			}
		}
	}
	t.Logf("REPLAY-NOT-CONFIRMED: real code agrees with the property on the model's input and on the boundary probes")
}
