package ante

// Replay driver for the fee helpers of x/opchild/ante (C20): the REAL CombinedMinGasPrices / computeRequiredFees are
// compared with an independent statement of the property (pointwise maximum of the two price lists; fee per denom =
// ceil(price * gas)). The gas value comes from the verifier's counterexample when it has one; price lists come from
// a fixed corpus (the verifier's coin lists are abstract).

import (
	"encoding/json"
	"math/big"
	"os"
	"sort"
	"testing"

	"cosmossdk.io/math"
	sdk "github.com/cosmos/cosmos-sdk/types"
)

func vrAnteInput(t *testing.T) map[string]string {
	m := map[string]string{}
	data, err := os.ReadFile(os.Getenv("VERIF_REPLAY_INPUT"))
	if err != nil {
		t.Skip("no replay input")
	}
	_ = json.Unmarshal(data, &m)
	return m
}

func vrDec(s string) math.LegacyDec { return math.LegacyMustNewDecFromStr(s) }

func vrPrices(kv ...string) sdk.DecCoins {
	var out sdk.DecCoins
	for i := 0; i+1 < len(kv); i += 2 {
		out = append(out, sdk.NewDecCoinFromDec(kv[i], vrDec(kv[i+1])))
	}
	return out.Sort()
}

func TestVerifReplay_FeeUtils(t *testing.T) {
	in := vrAnteInput(t)
	gasModel := uint64(200000)
	if v, ok := new(big.Int).SetString(in["gas"], 10); ok && v.IsUint64() {
		gasModel = v.Uint64()
	}
	lists := []sdk.DecCoins{
		nil,
		vrPrices("uinit", "0.15"),
		vrPrices("uinit", "0.000000000000000001"),
		vrPrices("aaa", "1", "uinit", "0.15"),
		vrPrices("uinit", "0.15", "zzz", "2.5"),
		vrPrices("aaa", "0.3", "mmm", "0.01", "zzz", "7"),
		vrPrices("mmm", "0.02"),
		vrPrices("aaa", "0.1", "zzz", "9"),
	}
	confirmed := false
	fail := func(f string, a ...interface{}) { confirmed = true; t.Errorf("REPLAY-CONFIRMED: "+f, a...) }
	for _, a := range lists {
		for _, b := range lists {
			ac, bc := append(sdk.DecCoins(nil), a...), append(sdk.DecCoins(nil), b...)
			got := CombinedMinGasPrices(ac, bc)
			want := map[string]math.LegacyDec{}
			for _, c := range a {
				want[c.Denom] = c.Amount
			}
			for _, c := range b {
				if cur, ok := want[c.Denom]; !ok || cur.LT(c.Amount) {
					want[c.Denom] = c.Amount
				}
			}
			seen := map[string]bool{}
			for i, c := range got {
				if seen[c.Denom] {
					fail("CombinedMinGasPrices(%s, %s) = %s lists denom %s twice", a, b, got, c.Denom)
				}
				seen[c.Denom] = true
				if i > 0 && got[i-1].Denom >= c.Denom {
					fail("CombinedMinGasPrices(%s, %s) = %s is not sorted", a, b, got)
				}
				if w, ok := want[c.Denom]; !ok || !w.Equal(c.Amount) {
					fail("CombinedMinGasPrices(%s, %s) prices %s at %s, the larger of the two prices is %s", a, b, c.Denom, c.Amount, w)
				}
			}
			for d, w := range want {
				if !w.IsZero() && !seen[d] {
					fail("CombinedMinGasPrices(%s, %s) = %s drops denom %s", a, b, got, d)
				}
			}
		}
	}
	for _, p := range lists {
		for _, gas := range []uint64{gasModel, 0, 1, 3, 200000, 1 << 40, ^uint64(0)} {
			got := computeRequiredFees(gas, append(sdk.DecCoins(nil), p...))
			var denoms []string
			for _, c := range p {
				denoms = append(denoms, c.Denom)
			}
			sort.Strings(denoms)
			for _, c := range p {
				w := c.Amount.MulInt(math.NewIntFromUint64(gas)).Ceil().RoundInt()
				if g := got.AmountOf(c.Denom); !g.Equal(w) && !(w.IsZero() && g.IsZero()) {
					fail("computeRequiredFees(gas %d, %s) asks %s%s, ceil(price*gas) is %s", gas, p, g, c.Denom, w)
				}
			}
		}
	}
	if !confirmed {
		t.Log("REPLAY-NOT-CONFIRMED: the fee helpers agree with the pointwise maximum / ceil(price*gas) on the corpus")
	}
}
