package hook

// Replay driver for the permissioned-channel metadata probe (C19): the REAL hasPermChannels is compared, on a corpus of
// metadata strings, with an independent statement: metadata carries channels exactly when it is a JSON object with the
// key perm_channels that decodes STRICTLY (no unknown fields) into PermsMetadata; the channels are the decoded ones.

import (
	"bytes"
	"encoding/json"
	"reflect"
	"testing"
)

func TestVerifReplay_PermChannels(t *testing.T) {
	corpus := []string{
		``, `{}`, `null`, `[]`, `"perm_channels"`, `{"perm_channels":[]}`, `{"perm_channels":null}`,
		`{"perm_channels":[{"port_id":"transfer","channel_id":"channel-0"}]}`,
		`{"perm_channels":[{"port_id":"transfer","channel_id":"channel-0"},{"port_id":"nft-transfer","channel_id":"channel-1"}]}`,
		`{"perm_channels":[{"port_id":"transfer","channel_id":"channel-0"}],"other":1}`,
		`{"other":1}`, `{"perm_channels":[{"port_id":"transfer","channel_id":"channel-0","extra":true}]}`,
		`{"perm_channels":"x"}`, `{"perm_channels":[1]}`, `{"Perm_Channels":[{"port_id":"a","channel_id":"b"}]}`,
		`{"perm_channels":[{"port_id":"transfer","channel_id":"channel-0"}]} trailing`, `{"perm_channels":[{"port_id":"transfer"`,
		` {"perm_channels":[{"channel_id":"channel-7"}]} `,
	}
	confirmed := false
	for _, s := range corpus {
		var obj map[string]interface{}
		wantHas := false
		var want PermsMetadata
		if len(s) > 0 && json.Unmarshal([]byte(s), &obj) == nil {
			if _, ok := obj["perm_channels"]; ok {
				dec := json.NewDecoder(bytes.NewReader([]byte(s)))
				dec.DisallowUnknownFields()
				var v PermsMetadata
				if dec.Decode(&v) == nil {
					wantHas, want = true, v
				}
			}
		}
		has, got := hasPermChannels([]byte(s))
		if has != wantHas || (has && !reflect.DeepEqual(got, want)) {
			confirmed = true
			t.Errorf("REPLAY-CONFIRMED: hasPermChannels(%q) = (%v, %+v) on the real code; strict decoding of an object with the key perm_channels gives (%v, %+v)", s, has, got, wantHas, want)
		}
	}
	if !confirmed {
		t.Log("REPLAY-NOT-CONFIRMED: hasPermChannels agrees with probe + strict decoding on the corpus")
	}
}
