package types

// Replay drivers for the pure functions of x/ophost/types (C17, C03, C05, C04): the integer fields come from the
// verifier's counterexample; byte strings come from a fixed corpus because the verifier's byte sort is abstract
// (its model has no concrete bytes). Each driver runs the REAL function and compares with an independent statement
// of the published format / the property clause.

import (
	"bytes"
	"context"
	"encoding/binary"
	"encoding/hex"
	"encoding/json"
	"math/big"
	"os"
	"strconv"
	"strings"
	"testing"
	"time"

	"golang.org/x/crypto/sha3"

	"cosmossdk.io/math"
	"github.com/cosmos/cosmos-sdk/codec/address"
	sdk "github.com/cosmos/cosmos-sdk/types"
	sdkaddress "github.com/cosmos/cosmos-sdk/types/address"
)

func vrInput(t *testing.T) map[string]string {
	m := map[string]string{}
	data, err := os.ReadFile(os.Getenv("VERIF_REPLAY_INPUT"))
	if err != nil {
		t.Skip("no replay input")
	}
	if err := json.Unmarshal(data, &m); err != nil {
		t.Fatal(err)
	}
	return m
}

func vrU64(m map[string]string, k string, def uint64) uint64 {
	v, ok := new(big.Int).SetString(m[k], 10)
	if !ok || v.Sign() < 0 || !v.IsUint64() {
		return def
	}
	return v.Uint64()
}

func vrI64(m map[string]string, k string, def int64) int64 {
	v, err := strconv.ParseInt(m[k], 10, 64)
	if err != nil {
		return def
	}
	return v
}

func vrSha3(b ...[]byte) []byte {
	h := sha3.New256()
	for _, x := range b {
		h.Write(x)
	}
	return h.Sum(nil)
}

func vrBe64(v uint64) []byte {
	b := make([]byte, 8)
	binary.BigEndian.PutUint64(b, v)
	return b
}

var vrStrings = []string{"", "a", "init1q6jhwnarkw2j5qqgx3qlu20k8nrdglft5ksr0g", "uinit", "l2/0123", "INIT1Q6JHWNARKW2J5QQGX3QLU20K8NRDGLFT5KSR0G", "ibc/27394FB092D2ECCD56123C74F36E4C1F926001CEADA9CA97EA622B25F41E5EB2", "1stake", "stake", strings.Repeat("init1verylongsender", 12), strings.Repeat("init1verylongsender", 12) + "x"}

func vrNode(a, b []byte) []byte {
	if bytes.Compare(a, b) <= 0 {
		return vrSha3(a, b)
	}
	return vrSha3(b, a)
}

// a 32-byte value inside a larger backing array, so that a callee appending to it would overwrite the neighbour
func vrAliased(seed byte, n int) (buf []byte, parts [][]byte) {
	buf = make([]byte, 32*n)
	for i := range buf {
		buf[i] = seed + byte(i*7)
	}
	for i := 0; i < n; i++ {
		parts = append(parts, buf[32*i:32*i+32])
	}
	return
}

func TestVerifReplay_Hashes(t *testing.T) {
	in := vrInput(t)
	bridge, seq, amount := vrU64(in, "bridgeId", 1), vrU64(in, "l2Sequence", 1), vrU64(in, "amount", 1)
	version := byte(vrU64(in, "version", 0))
	ids := []uint64{bridge, 0, 1, 11, 25, 1 << 40, ^uint64(0)}
	confirmed := false
	fail := func(f string, a ...interface{}) { confirmed = true; t.Errorf("REPLAY-CONFIRMED: "+f, a...) }

	// L2Denom, twice in a different order (the value may depend only on the arguments)
	for round := 0; round < 2; round++ {
		for _, id := range ids {
			for _, d := range vrStrings {
				want := "l2/" + hex.EncodeToString(vrSha3(vrBe64(id), []byte(d)))
				if got := L2Denom(id, d); got != want {
					fail("L2Denom(%d, %q) = %s on the real code, the published format gives %s", id, d, got, want)
				}
			}
		}
	}
	// BridgeAddress: a function of the id alone (ids congruent modulo small powers of two included), asked twice in two orders
	addrIDs := append(append([]uint64(nil), ids...), 2, 257, 258, 1+1<<16, 1+1<<32, 513)
	for round := 0; round < 2; round++ {
		for k := range addrIDs {
			id := addrIDs[k]
			if round == 1 {
				id = addrIDs[len(addrIDs)-1-k]
			}
			want := sdk.AccAddress(sdkaddress.Module(ModuleName, vrBe64(id)))
			if got := BridgeAddress(id); !bytes.Equal(got, want) {
				fail("BridgeAddress(%d) = %s on the real code, the module-address derivation over the big-endian id gives %s", id, got, want)
			}
		}
	}
	// withdrawal leaf
	for _, id := range ids[:4] {
		for _, s := range append(append([]string(nil), vrStrings[:6]...), vrStrings[len(vrStrings)-2:]...) {
			for _, r := range append(append([]string(nil), vrStrings[:6]...), vrStrings[len(vrStrings)-1]) {
				for _, am := range []uint64{amount, 0, 1, ^uint64(0)} {
					inner := vrSha3(vrBe64(id), vrBe64(seq), vrSha3([]byte(s)), vrSha3([]byte(r)), vrSha3([]byte("uinit")), vrBe64(am))
					want := vrSha3(inner)
					got := GenerateWithdrawalHash(id, seq, s, r, "uinit", am)
					if !bytes.Equal(got[:], want) {
						fail("GenerateWithdrawalHash(%d,%d,%q,%q,uinit,%d) differs from the published leaf format", id, seq, s, r, am)
					}
				}
			}
		}
	}
	// output root: only the first 32 bytes of each argument count, arguments are not modified
	sbuf, sp := vrAliased(3, 2)
	scopy := append([]byte(nil), sbuf...)
	for _, v := range []byte{version, 0, 1, 255} {
		want := vrSha3([]byte{v}, sp[0], sp[1])
		got := GenerateOutputRoot(v, sp[0], sp[1])
		if !bytes.Equal(got[:], want) {
			fail("GenerateOutputRoot(version %d) differs from sha3(version ++ storage root ++ block hash)", v)
		}
	}
	if !bytes.Equal(sbuf, scopy) {
		fail("GenerateOutputRoot modified its arguments")
	}
	// node hash: format, symmetry, and no write into the caller's memory (arguments with spare capacity)
	nbuf, np := vrAliased(9, 4)
	ncopy := append([]byte(nil), nbuf...)
	for i := 0; i < 3; i++ {
		for j := 0; j < 4; j++ {
			got := GenerateNodeHash(np[i], np[j])
			if want := vrNode(np[i], np[j]); !bytes.Equal(got[:], want) {
				fail("GenerateNodeHash(#%d,#%d) differs from sha3(min ++ max)", i, j)
			}
			if !bytes.Equal(nbuf, ncopy) {
				fail("GenerateNodeHash(#%d,#%d) overwrote memory of its caller (argument slice had spare capacity)", i, j)
				copy(nbuf, ncopy)
			}
		}
	}
	// root from proofs over one shared buffer
	pbuf, pp := vrAliased(21, 5)
	pcopy := append([]byte(nil), pbuf...)
	var leaf [32]byte
	copy(leaf[:], vrSha3([]byte("leaf")))
	for n := 0; n <= 5; n++ {
		want := leaf[:]
		for k := 0; k < n; k++ {
			want = vrNode(want, pcopy[32*k:32*k+32])
		}
		got := GenerateRootHashFromProofs(leaf, pp[:n])
		if !bytes.Equal(got[:], want) {
			fail("GenerateRootHashFromProofs with %d siblings differs from the fold of the node rule", n)
		}
		if !bytes.Equal(pbuf, pcopy) {
			fail("GenerateRootHashFromProofs with %d siblings overwrote the proof bytes of its caller", n)
			copy(pbuf, pcopy)
		}
	}
	if !confirmed {
		t.Log("REPLAY-NOT-CONFIRMED: every real result equals the published format on the model's integers and the byte corpus")
	}
}

func TestVerifReplay_BridgeConfigValidate(t *testing.T) {
	in := vrInput(t)
	period, interval := vrI64(in, "period", 1), vrI64(in, "interval", 1)
	ac := address.NewBech32Codec("init")
	a, _ := ac.BytesToString(bytes.Repeat([]byte{1}, 20))
	b, _ := ac.BytesToString(bytes.Repeat([]byte{2}, 20))
	c, _ := ac.BytesToString(bytes.Repeat([]byte{3}, 20))
	confirmed := false
	for _, iv := range []int64{interval, int64(time.Second)} {
		cfg := BridgeConfig{Challenger: a, Proposer: b, SubmissionInterval: time.Duration(iv), FinalizationPeriod: time.Duration(period), SubmissionStartHeight: 1,
			BatchInfo: BatchInfo{Submitter: c, ChainType: BatchInfo_CHAIN_TYPE_INITIA}}
		for name, err := range map[string]error{"Validate": cfg.Validate(ac), "ValidateWithNoAddrValidation": cfg.ValidateWithNoAddrValidation()} {
			if err == nil && period <= 0 {
				confirmed = true
				t.Errorf("REPLAY-CONFIRMED: BridgeConfig.%s accepts FinalizationPeriod = %d ns (SubmissionInterval %d ns): outputs of such a bridge are final at once", name, period, iv)
			}
		}
	}
	if !confirmed {
		t.Logf("REPLAY-NOT-CONFIRMED: period %d is handled as the property requires", period)
	}
}

func TestVerifReplay_DepositValidate(t *testing.T) {
	in := vrInput(t)
	amt, ok := new(big.Int).SetString(in["amount"], 10)
	if !ok {
		t.Skip("REPLAY-SKIPPED: no amount")
	}
	ac := address.NewBech32Codec("init")
	a, _ := ac.BytesToString(bytes.Repeat([]byte{1}, 20))
	msg := MsgInitiateTokenDeposit{Sender: a, BridgeId: 1, To: "l2addr", Amount: sdk.Coin{Denom: "uinit", Amount: math.NewIntFromBigInt(amt)}}
	err := msg.Validate(ac)
	if err == nil && (amt.Sign() < 0 || !amt.IsUint64()) {
		t.Errorf("REPLAY-CONFIRMED: MsgInitiateTokenDeposit.Validate accepts amount %s, which the L1 claim path (uint64 leaf amount) can never pay back", amt)
		return
	}
	t.Logf("REPLAY-NOT-CONFIRMED: amount %s handled as required (err=%v)", amt, err)
}

// MsgFinalizeTokenWithdrawal.Validate (C03, C04): the verdict of the REAL function is compared with the property's own
// notion of a well-formed claim (valid signer and recipient, non-empty L2 sender of ANY length, valid positive coin,
// non-zero ids, 1-byte version, 32-byte roots and proof elements). Lengths and integers come from the counterexample;
// boundary lengths are probed as well.
func TestVerifReplay_ClaimValidate(t *testing.T) {
	in := vrInput(t)
	ac := address.NewBech32Codec("init")
	a, _ := ac.BytesToString(bytes.Repeat([]byte{1}, 20))
	b, _ := ac.BytesToString(bytes.Repeat([]byte{2}, 20))
	rep := func(n uint64) []byte {
		if n > 1<<16 {
			n = 1 << 16
		}
		return bytes.Repeat([]byte{'x'}, int(n))
	}
	type shape struct{ from, version, root, hash, proofs, proofLen, seq, bridge, index, amount uint64 }
	base := shape{from: vrU64(in, "fromLen", 5), version: vrU64(in, "versionLen", 1), root: vrU64(in, "rootLen", 32), hash: vrU64(in, "hashLen", 32),
		proofs: vrU64(in, "proofs", 2), proofLen: vrU64(in, "proofLen", 32), seq: vrU64(in, "sequence", 1), bridge: vrU64(in, "bridgeId", 1), index: vrU64(in, "outputIndex", 1), amount: vrU64(in, "amount", 1)}
	shapes := []shape{base}
	ok := shape{from: 5, version: 1, root: 32, hash: 32, proofs: 2, proofLen: 32, seq: 1, bridge: 1, index: 1, amount: 1}
	for _, n := range []uint64{0, 1, 20, 255, 256, 300, 4096} {
		s := ok
		s.from = n
		shapes = append(shapes, s)
	}
	for _, n := range []uint64{0, 1, 2, 31, 32, 33, 64} {
		s1, s2, s3, s4 := ok, ok, ok, ok
		s1.version, s2.root, s3.hash, s4.proofLen = n, n, n, n
		shapes = append(shapes, s1, s2, s3, s4)
	}
	for _, n := range []uint64{0, 1, 31, 32, 33, 64, 200} {
		s := ok
		s.proofs = n
		shapes = append(shapes, s)
	}
	confirmed := false
	for _, s := range shapes {
		if s.proofs > 512 {
			s.proofs = 512
		}
		msg := MsgFinalizeTokenWithdrawal{Sender: a, BridgeId: s.bridge, OutputIndex: s.index, Sequence: s.seq, From: string(rep(s.from)), To: b,
			Amount: sdk.Coin{Denom: "uinit", Amount: math.NewIntFromUint64(s.amount)}, Version: rep(s.version), StorageRoot: rep(s.root), LastBlockHash: rep(s.hash)}
		for i := uint64(0); i < s.proofs; i++ {
			msg.WithdrawalProofs = append(msg.WithdrawalProofs, rep(s.proofLen))
		}
		want := s.from > 0 && s.version == 1 && s.root == 32 && s.hash == 32 && (s.proofs == 0 || s.proofLen == 32) && s.seq != 0 && s.bridge != 0 && s.index != 0 && s.amount > 0
		err := msg.Validate(ac)
		if (err == nil) != want {
			confirmed = true
			t.Errorf("REPLAY-CONFIRMED: MsgFinalizeTokenWithdrawal.Validate on the real code returns %v for a claim with from=%d bytes, version=%d, storage root=%d, block hash=%d, %d proof elements of %d bytes, sequence=%d, bridge=%d, output index=%d, amount=%d; the property calls this claim %s",
				err, s.from, s.version, s.root, s.hash, s.proofs, s.proofLen, s.seq, s.bridge, s.index, s.amount, map[bool]string{true: "well-formed (it must be accepted)", false: "malformed (it must be rejected)"}[want])
		}
	}
	if !confirmed {
		t.Log("REPLAY-NOT-CONFIRMED: Validate agrees with the property's notion of a well-formed claim on the model's shape and on the boundary shapes")
	}
}

// BridgeHooks fan-out wrapper (C19): every member receives the same notification with the same arguments, in order;
// the first failure is returned and stops the fan-out.
type vrHook struct {
	log  *[]string
	name string
	fail string
}

func (h vrHook) rec(m string, id uint64, cfg BridgeConfig) error {
	*h.log = append(*h.log, h.name+":"+m+":"+strconv.FormatUint(id, 10)+":"+cfg.Challenger)
	if h.fail == m {
		return ErrInvalidBridgeId
	}
	return nil
}
func (h vrHook) BridgeCreated(_ context.Context, id uint64, c BridgeConfig) error { return h.rec("BridgeCreated", id, c) }
func (h vrHook) BridgeChallengerUpdated(_ context.Context, id uint64, c BridgeConfig) error {
	return h.rec("BridgeChallengerUpdated", id, c)
}
func (h vrHook) BridgeProposerUpdated(_ context.Context, id uint64, c BridgeConfig) error {
	return h.rec("BridgeProposerUpdated", id, c)
}
func (h vrHook) BridgeBatchInfoUpdated(_ context.Context, id uint64, c BridgeConfig) error {
	return h.rec("BridgeBatchInfoUpdated", id, c)
}
func (h vrHook) BridgeMetadataUpdated(_ context.Context, id uint64, c BridgeConfig) error {
	return h.rec("BridgeMetadataUpdated", id, c)
}

func TestVerifReplay_BridgeHooksFanout(t *testing.T) {
	confirmed := false
	methods := []string{"BridgeCreated", "BridgeChallengerUpdated", "BridgeProposerUpdated", "BridgeBatchInfoUpdated", "BridgeMetadataUpdated"}
	cfg := BridgeConfig{Challenger: "challenger-x"}
	for _, m := range methods {
		for n := 0; n <= 3; n++ {
			for failAt := -1; failAt < n; failAt++ {
				var log []string
				var hooks BridgeHooks
				for i := 0; i < n; i++ {
					h := vrHook{log: &log, name: strconv.Itoa(i)}
					if i == failAt {
						h.fail = m
					}
					hooks = append(hooks, h)
				}
				var err error
				switch m {
				case "BridgeCreated":
					err = hooks.BridgeCreated(context.Background(), 7, cfg)
				case "BridgeChallengerUpdated":
					err = hooks.BridgeChallengerUpdated(context.Background(), 7, cfg)
				case "BridgeProposerUpdated":
					err = hooks.BridgeProposerUpdated(context.Background(), 7, cfg)
				case "BridgeBatchInfoUpdated":
					err = hooks.BridgeBatchInfoUpdated(context.Background(), 7, cfg)
				case "BridgeMetadataUpdated":
					err = hooks.BridgeMetadataUpdated(context.Background(), 7, cfg)
				}
				var want []string
				last := n
				if failAt >= 0 {
					last = failAt + 1
				}
				for i := 0; i < last; i++ {
					want = append(want, strconv.Itoa(i)+":"+m+":7:challenger-x")
				}
				if (err != nil) != (failAt >= 0) || len(log) != len(want) {
					confirmed = true
					t.Errorf("REPLAY-CONFIRMED: BridgeHooks.%s over %d hooks (hook %d failing) returned %v after the calls %v; expected %v", m, n, failAt, err, log, want)
					continue
				}
				for i := range want {
					if log[i] != want[i] {
						confirmed = true
						t.Errorf("REPLAY-CONFIRMED: BridgeHooks.%s delivered %q to member %d instead of %q", m, log[i], i, want[i])
					}
				}
			}
		}
	}
	if !confirmed {
		t.Log("REPLAY-NOT-CONFIRMED: the fan-out wrapper forwards every notification unchanged, in order, stopping at the first failure")
	}
}
