#!/usr/bin/env python3
# seedmeta.py <name> <property> <caught-by obligations csv> <needs...>  : write /verif/seeded/<name>/meta.json
import json,sys,os,re
name,prop,needs=sys.argv[1],sys.argv[2],sys.argv[3]
d='/verif/seeded/'+name
log=open(d+'/confirm.log').read() if os.path.exists(d+'/confirm.log') else ''
out='/verif/out/seeded/'+name
caught={}
if os.path.isdir(out):
    for f in sorted(os.listdir(out)):
        if f.endswith('.log'):
            L=open(out+'/'+f).read()
            v=re.findall(r'^VIOLATION property=(\S+) replay=\S*/([^/\s]+)\.json',L,re.M)
            caught[f[:-4]]=[x[1] for x in v]
meta={
 "breaks_property":prop,
 "needs_to_manifest":needs,
 "files_changed":re.findall(r'^\+\+\+ b/(\S+)',open(d+'/patch.diff').read(),re.M),
 "demo_test":open(d+'/demo_path.txt').read().strip(),
 "demo_cmd":[l.strip() for l in open(d+'/demo_cmd.txt') if 'go test' in l][0],
 "confirmed_by_me":{"how":"tools/seedconfirm.sh in the agent's scratch worktree: go build ./...; go test -vet=off -count=1 ./x/... with the demo moved aside (pass); demo with the change (fail); demo with the change reverted (pass)","log":"confirm.log"},
 "checks_run":{"how":"tools/seedrun.sh: git -C /repo apply patch.diff; ./check <prop>; git -C /repo checkout -- .","violations_by_check":caught},
 "caught": any(caught.values()),
}
json.dump(meta,open(d+'/meta.json','w'),indent=1)
print(name,meta["caught"],caught)
