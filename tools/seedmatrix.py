#!/usr/bin/env python3
# prints the markdown table "seeded change -> obligations that fail" from /verif/seeded/*/meta.json
import json,glob,os
rows=[]
for d in sorted(glob.glob('/verif/seeded/*/')):
    m=json.load(open(d+'meta.json')); n=os.path.basename(d[:-1])
    by=m['checks_run']['violations_by_check']
    caught='; '.join('%s: %s'%(k,', '.join(sorted(set(x.split('.',1)[1] for x in v))[:3])+(' …' if len(set(v))>3 else '')) for k,v in by.items() if v) or 'MISSED'
    rows.append('| %s | %s | %s | %s | %s |'%(n,m['breaks_property'],', '.join(os.path.basename(f) for f in m['files_changed']),m['needs_to_manifest'].replace('|','/'),caught))
print('| seed | property | file | needs, to manifest | failing obligations (check: names) |')
print('|---|---|---|---|---|')
print('\n'.join(rows))
