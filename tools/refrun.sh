#!/bin/sh
# refrun.sh <patch> : apply a behaviour-preserving refactoring to a scratch worktree of /repo HEAD, run all 20 quick checks
# against it (govc check -repo), remove the worktree. Every check must exit 0 (must-pass corpus).
P=$1
N=$(basename "$P" .diff)
W=$(mktemp -d /tmp/verif-refac.XXXXXX)
git -C /repo worktree add -q --detach "$W/r" "${REFRUN_REV:-HEAD}" >/dev/null 2>&1 || exit 2
trap 'git -C /repo worktree remove --force "$W/r" >/dev/null 2>&1; rm -rf "$W"' EXIT INT TERM
git -C "$W/r" apply "$P" || { echo "patch does not apply: $N"; exit 2; }
export VERIF_OUT_DIR=/verif/out/refac/$N VERIF_EVIDENCE_DIR=/verif/out/refac/$N/evidence VERIF_NO_SELFTEST=1
mkdir -p "$VERIF_EVIDENCE_DIR"
bad=0
for batch in "C01 C02 C03 C04 C05 C06 C07" "C08 C09 C10 C11 C12 C13 C14" "C15 C16 C17 C18 C19 C20"; do
  for p in $batch; do ( "${GOVC_BIN:-/verif/bin/govc}" check $p --tier quick -repo "$W/r" > "$VERIF_OUT_DIR/$p.log" 2>&1; echo "$p $?" > "$VERIF_OUT_DIR/$p.rc" ) & done; wait
done
for f in "$VERIF_OUT_DIR"/*.rc; do read p rc < "$f"; if [ "$rc" != 0 ]; then bad=1; echo "ALARM $N $p rc=$rc: $(grep -E '^(VIOLATION|ENGINE)' "$VERIF_OUT_DIR/$p.log" | head -3 | tr '\n' ' ')"; fi; done
rm -rf "$VERIF_OUT_DIR/smt"   # kept queries of the run are large and not needed afterwards
[ $bad -eq 0 ] && echo "quiet $N"
exit $bad
