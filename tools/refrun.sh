#!/bin/sh
# refrun.sh <patch> : apply a behaviour-preserving refactoring to /repo, run all 20 quick checks, undo it.
# Every check must exit 0 (must-pass corpus). Evidence/out are redirected.
P=$1
git -C /repo diff --quiet || { echo "/repo is dirty"; exit 2; }
git -C /repo apply "$P" || exit 2
trap 'git -C /repo checkout -- . ; git -C /repo clean -fdq x' EXIT INT TERM
N=$(basename "$P" .diff)
export VERIF_OUT_DIR=/verif/out/refac/$N VERIF_EVIDENCE_DIR=/verif/out/refac/$N/evidence
mkdir -p "$VERIF_EVIDENCE_DIR"
bad=0
for batch in "C01 C02 C03 C04 C05 C06 C07" "C08 C09 C10 C11 C12 C13 C14" "C15 C16 C17 C18 C19 C20"; do
  for p in $batch; do ( /verif/check $p > "$VERIF_OUT_DIR/$p.log" 2>&1; echo "$p $?" > "$VERIF_OUT_DIR/$p.rc" ) & done; wait
done
for f in "$VERIF_OUT_DIR"/*.rc; do read p rc < "$f"; if [ "$rc" != 0 ]; then bad=1; echo "ALARM $N $p rc=$rc: $(grep -E '^(VIOLATION|ENGINE)' "$VERIF_OUT_DIR/$p.log" | head -3 | tr '\n' ' ')"; fi; done
[ $bad -eq 0 ] && echo "quiet $N"
exit $bad
