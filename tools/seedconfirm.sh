#!/bin/sh
# seedconfirm.sh <seed-dir> <name> : confirm a sub-agent's seeded change in its scratch worktree
#   1. the change compiles, 2. the existing suite passes with it (demo test moved aside),
#   3. the demo fails with the change, 4. the demo passes without it.
# On success the artefacts are copied to /verif/seeded/<name>/ (patch.diff, demo test, demo_cmd.txt, notes.md, confirm.log).
set -u
W=$1; NAME=$2
export GOPROXY=off GOTOOLCHAIN=local GOSUMDB=off GOFLAGS=
OUT=$W/_out
LOG=$OUT/confirm.log
: > "$LOG"
cd "$W" || exit 2
DEMO=$(git status --porcelain | awk '/^\?\? .*_test\.go$/ {print $2}' | head -1)
[ -n "$DEMO" ] || { echo "no untracked demo test found"; exit 2; }
CMD=$(grep -m1 'go test' "$OUT/demo_cmd.txt")
echo "demo file: $DEMO" | tee -a "$LOG"
echo "demo cmd : $CMD" | tee -a "$LOG"
git diff HEAD -- . ':(exclude)_out' > "$OUT/patch.confirm.diff"
[ -s "$OUT/patch.confirm.diff" ] || { echo "no source change in worktree"; exit 2; }
echo "== build" | tee -a "$LOG"
go build ./... >>"$LOG" 2>&1 || { echo "BUILD FAILS"; exit 1; }
echo "== existing suite with the change (demo moved aside)" | tee -a "$LOG"
mv "$DEMO" "$OUT/.demo_aside"
go test -vet=off -count=1 ./x/... >>"$LOG" 2>&1; S=$?
mv "$OUT/.demo_aside" "$DEMO"
[ $S -eq 0 ] || { echo "EXISTING SUITE FAILS WITH THE CHANGE"; tail -30 "$LOG"; exit 1; }
echo "== demo with the change (must fail)" | tee -a "$LOG"
sh -c "$CMD" >>"$LOG" 2>&1; S=$?
[ $S -ne 0 ] || { echo "DEMO PASSES WITH THE CHANGE"; exit 1; }
echo "== demo without the change (must pass)" | tee -a "$LOG"
git apply -R "$OUT/patch.confirm.diff" || exit 2
sh -c "$CMD" >>"$LOG" 2>&1; S=$?
git apply "$OUT/patch.confirm.diff"
[ $S -eq 0 ] || { echo "DEMO FAILS WITHOUT THE CHANGE"; tail -30 "$LOG"; exit 1; }
D=/verif/seeded/$NAME
mkdir -p "$D"
cp "$OUT/patch.confirm.diff" "$D/patch.diff"
cp "$DEMO" "$D/$(basename "$DEMO")"
cp "$OUT/demo_cmd.txt" "$D/demo_cmd.txt"
[ -f "$OUT/notes.md" ] && cp "$OUT/notes.md" "$D/notes.md"
cp "$LOG" "$D/confirm.log"
echo "$DEMO" > "$D/demo_path.txt"
echo "CONFIRMED -> $D"
