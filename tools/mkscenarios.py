#!/usr/bin/env python3
# builds /verif/replay/scenarios/index.json from the confirmed seeded demonstrations: per property the scenario tests
# (written by sub-agents, each asserts the property on a specific history and PASSES on the unchanged tree)
import json,glob,os,re
idx={}
for d in sorted(glob.glob('/verif/seeded/*/')):
    m=json.load(open(d+'meta.json'))
    name=os.path.basename(d[:-1])
    demo=m['demo_test']; pkg=os.path.dirname(demo); f=os.path.basename(demo)
    if not os.path.exists(d+f): continue
    r=re.search(r"-run\s+'?([^'\s]+)'?",m['demo_cmd'])
    run=r.group(1) if r else 'Test'
    idx.setdefault(m['breaks_property'],[]).append({"name":name,"pkg":pkg,"file":"seeded/%s/%s"%(name,f),"run":run,"history":m['needs_to_manifest']})
os.makedirs('/verif/replay/scenarios',exist_ok=True)
json.dump(idx,open('/verif/replay/scenarios/index.json','w'),indent=1)
print({k:len(v) for k,v in idx.items()})
