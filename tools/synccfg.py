#!/usr/bin/env python3
# every function that carries a clause tagged with a property must be in that property's function list
import json,glob,re,os
cfgp='/verif/spec/properties.json'; cfg=json.load(open(cfgp))
added=[]
for f in glob.glob('/repo/x/**/zz_verif_contracts*.go',recursive=True):
    pkg='github.com/initia-labs/OPinit/'+os.path.dirname(f)[len('/repo/'):]
    cur=None
    for line in open(f):
        m=re.match(r'\s*//@\s*func\s+(?:\(([^)]*)\)\s*)?([A-Za-z0-9_$]+)',line)
        if m:
            recv=(m.group(1) or '').split()[-1].lstrip('*') if m.group(1) else ''
            name=m.group(2)
            cur=(pkg+'.\\('+recv+'\\).'+name) if recv else (pkg+'.'+name)
            cur=cur.replace('$','\\$')
            continue
        t=re.search(r'//\s*((?:C\d{2})(?:\s*,\s*C\d{2})*)\s*:',line.split('//@',1)[1]) if '//@' in line else None
        if t and cur:
            for p in re.split(r'\s*,\s*',t.group(1)):
                if p in cfg and cur not in cfg[p]['functions']:
                    cfg[p]['functions'].append(cur); added.append((p,cur))
json.dump(cfg,open(cfgp,'w'),indent=1)
for a in added: print('added',a[0],a[1])
print(len(added),'additions')

# (A blanket rule "every contracted function defined in an anchored file joins the property" was tried and dropped: it added
#  210 functions, most of them irrelevant to the property, and would make a check alarm on changes that only break another property.)
