#!/usr/bin/env python3
# seedprep.py <round> <prop>... : scratch worktrees /tmp/<round>-<prop>, property text, list of earlier attempts, prompt
import json,glob,sys,subprocess
rnd=sys.argv[1]
props={json.loads(l)['id']:json.loads(l) for l in open('/verif/properties.jsonl')}
open(f'/tmp/{rnd}-prompt.txt','w').write(open('/verif/tools/seed_prompt.txt').read().replace('@ROUND@',rnd))
for pid in sys.argv[2:]:
    open(f'/tmp/{rnd}-prop-{pid}.txt','w').write(json.dumps(props[pid],indent=1))
    prev=[]
    for d in sorted(glob.glob('/verif/seeded/*/')):
        m=json.load(open(d+'meta.json'))
        if m['breaks_property']==pid:
            prev.append('- files %s: needs %s'%(', '.join(m['files_changed']),m['needs_to_manifest']))
    open(f'/tmp/{rnd}-prev-{pid}.txt','w').write('Earlier attempts against this property (do not repeat their mechanism or function):\n'+'\n'.join(prev)+'\n')
    subprocess.run(['git','-C','/repo','worktree','add','--detach',f'/tmp/{rnd}-{pid}','HEAD'],capture_output=True)
print('ready',rnd,sys.argv[2:])
