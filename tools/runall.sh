#!/bin/sh
# runall.sh [tier] : run every property's check in parallel batches, print exit codes and times
cd /verif
T=${1:-quick}
mkdir -p out/runall
run() { s=$(date +%s); ./check $1 --tier $T > out/runall/$1.log 2>&1; rc=$?; e=$(date +%s); echo "$1 exit=$rc $((e-s))s $(grep -c '^VIOLATION' out/runall/$1.log) viol $(grep -c 'ENGINE-ERROR' out/runall/$1.log) engerr"; }
for batch in "C01 C02 C03 C04 C05" "C06 C07 C08 C09 C10" "C11 C12 C13 C14 C15" "C16 C17 C18 C19 C20"; do
  for p in $batch; do run $p & done; wait
done
