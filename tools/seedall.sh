#!/bin/sh
# seedall.sh : regression over every confirmed seeded change: apply, run the quick check of the property it breaks, undo.
# Prints one line per seed: caught / MISSED / does-not-apply (a later fix: commit rewrote the same lines).
cd /verif
for d in seeded/*/; do
  n=$(basename "$d")
  p=$(python3 -c "import json;print(json.load(open('$d/meta.json'))['breaks_property'])")
  if ! git -C /repo apply --check "/verif/$d/patch.diff" 2>/dev/null; then echo "does-not-apply $n ($p)"; continue; fi
  out=$(sh tools/seedrun.sh "$n" "$p" 2>&1 | grep -v conda | head -1)
  case "$out" in *"exit=1"*) echo "caught   $n ($p)";; *) echo "MISSED   $n ($p): $out";; esac
done
