#!/usr/bin/env python3
"""Regenerates /verif/MANIFEST.json from the table below and spec/properties.json."""
import json, subprocess
props = [json.loads(l) for l in open('/verif/properties.jsonl')]
cfg = json.load(open('/verif/spec/properties.json'))
TECH = "contract-based deductive verification (self-generated VCs over go/ssa, discharged by z3/cvc5)"
NOTE = "trusted: assumed contracts of dependencies listed in the evidence (collections/store A-STORE/A-COLL, bank A-BANK, auth A-AUTH, address codecs, sha3 as function of layout A-HASH, fmt/strconv as pure functions), A-TX (failed message leaves no state), go/ssa lowering, SMT solvers; sized integers modelled exactly with wrap-around"
LEVEL = {
 "C01": ("proof", "every L1 handler is verified against a contract with an explicit frame (assigns): escrow balances move only by the deposited / withdrawn amount of the addressed bridge, every other bridge's cells and every other account are provably untouched, for all states and inputs", "DESIGN.md §7 C01"),
 "C02": ("proof", "FinalizeTokenWithdrawal is proved to require the claim cell of the output-independent leaf (bridge id included) to be empty and to set it; every other L1 handler is proved not to touch ProvenWithdrawals (frame), so a second payout of the same withdrawal is impossible in any history", "DESIGN.md §7 C02"),
 "C03": ("proof", "the four hash functions are proved equal to the spec functions of the published formats (field order, widths, endianness, double hash, sorted pair) and FinalizeTokenWithdrawal is proved to succeed only if the stored output root equals outputRoot(version, storage root, block hash) and the leaf of exactly the claimed fields folds to the storage root through the proof; unbounded proof length (loop invariant)", "DESIGN.md §7 C03"),
 "C04": ("proof", "both entry points are proved to accept only transfers whose fields satisfy the L1 claim-side validation (positive amount below 2^64, non-empty sender, valid denom); the refund event of a failed deposit carries exactly the deposit's fields", "DESIGN.md §7 C04"),
 "C05": ("proof", "window inequality of isFinalized, strictly positive period at validation, final outputs never deleted, period never rewritten by role/config updates, last-finalized query names the highest final index (descending store walk cut with an invariant)", "DESIGN.md §7 C05"),
 "C06": ("proof", "three-way contract of FinalizeTokenDeposit on the sequence gate: stale => NOOP with no state change and no event, ahead => error, equal => SUCCESS and next+1; proved for every stored state, so every schedule is covered", "DESIGN.md §7 C06"),
 "C07": ("proof", "success contract (no error, no panic) of FinalizeTokenDeposit at the expected sequence under demonic failure/panic of mint, transfer, tx decoding, ante chain and routed hook messages; credit-or-refund outcome; failed deposit/hook proved to leave bank state untouched via branched store handles", "DESIGN.md §7 C07"),
 "C08": ("proof", "solvency equation escrow = L2 supply + in-flight deposits + in-flight withdrawals proved preserved by every bridge transition as SMT lemmas over the verified handler contract clauses (the lemma file names each clause it transcribes and the check verifies the clause still exists verbatim); the four handlers are re-verified in the same run; relayer faithfulness is an explicit assumption", "DESIGN.md §7 C08"),
 "C09": ("proof", "InitiateTokenWithdrawal burns exactly the stated amount from the signer, takes the next L2 sequence and announces the base denom of the write-once denom mapping; FinalizeTokenDeposit writes the mapping only when absent", "DESIGN.md §7 C09"),
 "C10": ("proof", "InitiateTokenDeposit: bridge must exist, returned sequence is the stored next (1 if absent) and is bumped by one, one event whose fields equal the request and the moved coins, token pair written once with the derived L2 denom; CreateBridge pre-records nothing under the new id", "DESIGN.md §7 C10"),
 "C11": ("proof", "ProposeOutput only at the next index with a higher L2 block number, recording block height/time; DeleteOutput removes exactly the non-final suffix [i,next) and rolls the counter back to i (quantified loop invariant, no bound)", "DESIGN.md §7 C11"),
 "C12": ("proof", "for every permissioned handler the success path implies that the declared signer holds the role in the pre-state; ExecuteMessages is admin-only, carries only authority-signed messages (loop invariant) and is all-or-nothing (branched store model); SetBridgeInfo never re-points the binding", "DESIGN.md §7 C12"),
 "C13": ("proof", "validator-set handlers and the end-block update (ApplyAndReturnValidatorSetUpdates, with quantified loop invariants over the stored validator map, the Go map of last powers iterated in an arbitrary order, and the sorted removal list) are proved to keep state consistent: last powers are exactly the positive-power validators, zero-power records are gone after the block, capacity and key index respected, no negative power in a batch", "DESIGN.md §7 C13"),
 "C14": ("proof", "plan registration rejects malformed plans without side effects; at the planned height EndBlocker leaves exactly the plan's validator bonded in L2 state and replaces the executor list; proved through the contracts of ChangeExecutor (store walk with invariant) and the end-block update", "DESIGN.md §7 C14"),
 "C19": ("proof", "channel-permission hooks: every admin cell that changes was fresh (next send sequence 1) and unowned, or belongs to a listed channel whose bridge's challenger changes; unparsable metadata touches nothing; hook failure fails the handler; loops over listed channels cut with invariants", "DESIGN.md §7 C19"),
 "C20": ("proof", "redundant-relay filter proved with a semantic loop invariant linking the stale/fresh counters to the L2 sequence actually consumed; system and free lane match conditions; fee checker proved over assumed contracts of the two coin-arithmetic helpers (stated in the evidence)", "DESIGN.md §7 C20"),
 "C15": ("proof", "OPinit glue of the oracle path: executor + oracle-enabled gate; update height not older than the validator snapshot; vote extensions validated for (L1 chain id, height-1, round, extension) with every counted commit vote's signature checked and a 2/3+1 quorum (loop invariant with a definitional partial-sum function); per-pair timestamps strictly increase; snapshot replaced only by a higher height from the configured client. The stake-weighted median of connect is assumed (A-MEDIAN)", "DESIGN.md §7 C15"),
 "C16": ("proof", "per genesis field: export lists exactly the stored entries of every collection (both inclusions; nested per-bridge lists via nested store-walk invariants) and the L2 import writes exactly the listed entries and replays the last powers; the round-trip composition itself is not discharged as a lemma (stated in the evidence)", "DESIGN.md §7 C16"),
 "C18": ("other", "determinism discipline as obligations: D1 no nondeterministic callee / goroutine / select in any state-transition function (go/ssa scan with def-use check for time.Now), D2 the only Go-map range is proved to yield the sorted key list for every iteration order (uninterpreted order bijection) and any other map range fails the check, D4 no package-level writes. Byte-identity of two runs (2-safety) is not decided", "DESIGN.md §7 C18"),
 "C17": ("proof", "leaf, node, root-from-proofs, output root, L2 denom and bridge address are proved equal to spec functions transcribed from the published formats, and proved not to write into caller-visible byte memory (slice model with capacity)", "DESIGN.md §7 C17"),
}
checks = []
for p in props:
    pid = p['id']
    if pid in cfg and pid in LEVEL:
        cat, text, ref = LEVEL[pid]
        checks.append({
            "property_id": pid, "quick_cmd": f"./check {pid} --tier quick", "thorough_cmd": f"./check {pid} --tier thorough",
            "evidence_file": f"/verif/evidence/{pid}.json", "engine": "govc", "replay_cmd_template": "cat {path}",
            "level_claimed": {"category": cat, "text": text, "design_ref": ref}, "level_note": NOTE, "technique": TECH})
claimed = {c['property_id'] for c in checks}
na = [{"property_id": p['id'], "reason": "no check registered yet in this round (contracts in progress); no claim is made"} for p in props if p['id'] not in claimed]
hooks = subprocess.run(['git', '-C', '/repo', 'log', '--format=%h %s'], capture_output=True, text=True).stdout.splitlines()
hook_commits = [l.split()[0] for l in hooks if 'verif hook' in l]
m = {
 "version": 1,
 "setup_cmd": "cd /verif/govc && GOFLAGS=-mod=vendor GOPROXY=off GOSUMDB=off GOTOOLCHAIN=local go build -o ../bin/govc .",
 "hooks": {"guard": "verif", "enable": "-tags verif (comment-only contract files zz_verif_contracts.go in the packages; read by govc, never executed)",
           "baseline_off_cmd": "for m in $(cat /w/out/gomods.txt); do MF=$(cd /repo/$m && . /w/out/goenv.sh && gomodflag); (cd /repo/$m && go test $MF -json -vet=off -count=1 -timeout 25m ./...); done",
           "source_commits": hook_commits, "add_only": True},
 "engines": [{"name": "govc", "path": "/verif/govc", "serves_properties": sorted(claimed),
              "kind_free_text": "verification-condition generator for Go: path-sensitive symbolic execution of go/ssa with contracts (requires/ensures/assigns/emits, loop and store-walk invariants) kept in build-tag-guarded comment files in /repo; callees by contract; obligations raced on z3 4.8.12, z3 5.1.0, cvc5 1.0"}],
 "checks": checks, "not_applicable": na,
 "notes": "fix: commits in /repo repair defects F1-F4 found by the checks (see known_findings.json); selftest/ holds must-fail mutants"}
json.dump(m, open('/verif/MANIFEST.json', 'w'), indent=1)
print("claimed", sorted(claimed), "n/a", [x['property_id'] for x in na])
