#!/bin/sh
# precommit.sh : all 20 quick checks must be silent on the current /repo tree before anything is committed
cd /verif
out=$(tools/runall.sh 2>&1 | grep -v conda | grep -v "exit=0 .* 0 viol 0 engerr")
if [ -n "$out" ]; then echo "NOT GREEN:"; echo "$out"; exit 1; fi
echo "all 20 checks green"
