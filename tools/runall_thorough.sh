#!/bin/sh
# runs every thorough command (3 at a time); evidence is written to a scratch dir so the committed evidence stays quick-tier
cd /verif
export VERIF_EVIDENCE_DIR=/verif/out/thorough/evidence VERIF_OUT_DIR=/verif/out/thorough
mkdir -p $VERIF_EVIDENCE_DIR
run() { s=$(date +%s); ./check $1 --tier thorough > out/thorough/$1.log 2>&1; rc=$?; e=$(date +%s); echo "$1 exit=$rc $((e-s))s $(grep -c '^VIOLATION' out/thorough/$1.log) viol $(grep -c 'SELFTEST-WARNING' out/thorough/$1.log) stwarn $(grep -c '^KNOWN-FINDING' out/thorough/$1.log) known"; }
for batch in "C01 C02 C03" "C04 C05 C06" "C07 C08 C09" "C10 C11 C12" "C13 C14 C15" "C16 C17 C18" "C19 C20"; do
  for p in $batch; do run $p & done; wait
done
