#!/bin/sh
# seedrun.sh <name> <prop>... : apply /verif/seeded/<name>/patch.diff to /repo, run the quick checks of the
# given properties, undo the patch straight afterwards. Evidence/out are redirected so the committed evidence is not touched.
set -u
NAME=$1; shift
P=/verif/seeded/$NAME/patch.diff
git -C /repo diff --quiet || { echo "/repo is dirty"; exit 2; }
git -C /repo apply "$P" || exit 2
trap 'git -C /repo checkout -- .' EXIT INT TERM
export VERIF_OUT_DIR=/verif/out/seeded/$NAME VERIF_EVIDENCE_DIR=/verif/out/seeded/$NAME/evidence
mkdir -p "$VERIF_EVIDENCE_DIR"
for prop in "$@"; do
  /verif/check "$prop" > "$VERIF_OUT_DIR/$prop.log" 2>&1; rc=$?
  echo "[$NAME] $prop exit=$rc $(grep -c '^VIOLATION' "$VERIF_OUT_DIR/$prop.log") violation line(s)"
  grep -E '^(VIOLATION|FAILED|ENGINE)' "$VERIF_OUT_DIR/$prop.log" | head -8
  grep -E 'undischarged|not discharged|FAIL ' "$VERIF_OUT_DIR/$prop.log" | head -8
done
rm -rf "$VERIF_OUT_DIR/smt"
