package main

// Discharging obligations: one SMT-LIB query per (obligation, path), raced on the installed solvers.

import (
	"sync/atomic"
	"bytes"
	"context"
	"crypto/sha256"
	"fmt"
	"os"
	"os/exec"
	"path/filepath"
	"runtime"
	"strings"
	"sync"
	"time"
)

type Solver struct {
	Name string
	Cmd  func(file string, timeoutS int) []string
}

var solvers = []Solver{
	{"z3-4.8.12", func(f string, t int) []string { return []string{"/usr/bin/z3", fmt.Sprintf("-T:%d", t), f} }},
	{"z3-5.1.0", func(f string, t int) []string { return []string{"z3-new", fmt.Sprintf("-T:%d", t), f} }},
	{"cvc5-1.0", func(f string, t int) []string {
		return []string{"/usr/bin/cvc5", fmt.Sprintf("--tlimit=%d", t*1000), "--full-saturate-quant", f}
	}},
}

type QueryResult struct {
	Result  string // unsat, sat, unknown, error, conflict
	Solver  string
	TimeS   float64
	Model   string
	PerSolver map[string]string
	File    string
}

func queryText(header string, assume []string, goal string, wantModel bool) string {
	var b strings.Builder
	b.WriteString(header)
	for _, a := range assume {
		if a == "" || a == "true" {
			continue
		}
		fmt.Fprintf(&b, "(assert %s)\n", a)
	}
	fmt.Fprintf(&b, "(assert (not %s))\n(check-sat)\n", goal)
	if wantModel {
		b.WriteString("(get-model)\n")
	}
	return b.String()
}

func runSolver(ctx context.Context, s Solver, file string, timeoutS int) (string, string, float64) {
	t0 := time.Now()
	args := s.Cmd(file, timeoutS)
	cctx, cancel := context.WithTimeout(ctx, time.Duration(timeoutS+2)*time.Second)
	defer cancel()
	cmd := exec.CommandContext(cctx, args[0], args[1:]...)
	var out bytes.Buffer
	cmd.Stdout = &out
	cmd.Stderr = &out
	_ = cmd.Run()
	el := time.Since(t0).Seconds()
	text := out.String()
	first := strings.TrimSpace(strings.SplitN(text, "\n", 2)[0])
	switch first {
	case "unsat", "sat", "unknown":
		return first, text, el
	}
	if strings.Contains(text, "timeout") || cctx.Err() != nil {
		return "timeout", text, el
	}
	return "error", text, el
}

// Solve races the solvers on one query. all=true waits for every solver (cross-check).
func Solve(dir, name, header string, assume []string, goal string, timeoutS int, all bool) QueryResult {
	qr := solveOnce(dir, name, header, assume, goal, timeoutS, all)
	if qr.Result == "unknown" && len(qr.PerSolver) > 0 {
		allErr := true
		for _, r := range qr.PerSolver {
			allErr = allErr && r == "error"
		}
		if allErr {
			// every solver process failed (not a timeout, not an answer): environmental (fork / memory pressure); once more
			time.Sleep(500 * time.Millisecond)
			qr = solveOnce(dir, name, header, assume, goal, timeoutS, all)
		}
	}
	return qr
}

func solveOnce(dir, name, header string, assume []string, goal string, timeoutS int, all bool) QueryResult {
	text := queryText(header, assume, goal, false)
	h := sha256.Sum256([]byte(text))
	// two paths can produce the same query text: the files must still be distinct, one query removes its file when done
	file := filepath.Join(dir, fmt.Sprintf("%s_%x_%d.smt2", sanitize(trunc(name, 80)), h[:6], atomic.AddInt64(&querySeq, 1)))
	if err := os.WriteFile(file, []byte(text), 0o644); err != nil {
		return QueryResult{Result: "error", Model: err.Error()}
	}
	ctx, cancel := context.WithCancel(context.Background())
	defer cancel()
	type res struct {
		solver, r, out string
		t              float64
	}
	ch := make(chan res, len(solvers))
	for _, s := range solvers {
		go func(s Solver) {
			r, out, t := runSolver(ctx, s, file, timeoutS)
			ch <- res{s.Name, r, out, t}
		}(s)
	}
	qr := QueryResult{Result: "unknown", PerSolver: map[string]string{}, File: file}
	t0 := time.Now()
	for i := 0; i < len(solvers); i++ {
		r := <-ch
		qr.PerSolver[r.solver] = r.r
		if r.r == "unsat" || r.r == "sat" {
			if qr.Result == "unknown" {
				qr.Result, qr.Solver, qr.TimeS = r.r, r.solver, r.t
				if !all {
					cancel()
					break
				}
			} else if qr.Result != r.r {
				qr.Result = "conflict"
			}
		}
	}
	if qr.TimeS == 0 {
		qr.TimeS = time.Since(t0).Seconds()
	}
	if qr.Result == "sat" {
		// fetch a model from the answering solver
		mtext := queryText(header, assume, goal, true)
		mfile := strings.TrimSuffix(file, ".smt2") + ".model.smt2"
		os.WriteFile(mfile, []byte(mtext), 0o644)
		for _, s := range solvers {
			if s.Name == qr.Solver {
				_, out, _ := runSolver(context.Background(), s, mfile, timeoutS)
				qr.Model = out
			}
		}
	}
	if qr.Result == "unsat" && !keepSMT {
		os.Remove(file)
	}
	return qr
}

var keepSMT = false

var querySeq int64

// SolveAll discharges all obligations of the reports in parallel.
func SolveAll(dir string, reps []*FuncReport, timeoutS int, all bool) {
	type job struct {
		rep *FuncReport
		o   *Obligation
	}
	var jobs []job
	for _, r := range reps {
		for _, o := range r.Obls {
			jobs = append(jobs, job{r, o})
		}
	}
	n := runtime.NumCPU() / 2
	if n < 2 {
		n = 2
	}
	var wg sync.WaitGroup
	ch := make(chan job)
	var mu sync.Mutex
	cache := map[string]QueryResult{}
	for i := 0; i < n; i++ {
		wg.Add(1)
		go func() {
			defer wg.Done()
			for j := range ch {
				o := j.o
				if o.Result != "" {
					continue // decided without a solver (e.g. a clause that cannot be stated on the current source)
				}
				if o.Goal == "true" {
					o.Result, o.Solver = "unsat", "syntactic"
					continue
				}
				key := fmt.Sprintf("%x", sha256.Sum256([]byte(j.rep.Header+strings.Join(o.Assume, "\n")+"|"+o.Goal)))
				mu.Lock()
				qr, ok := cache[key]
				mu.Unlock()
				if !ok {
					t := timeoutS
					if o.Kind == "vacuity" && t > 3 {
						// satisfiability of quantified assumptions is rarely decided; an unsat answer (the only
						// one that matters: vacuous contract) comes quickly if at all
						t = 3
					}
					qr = Solve(dir, o.Name, j.rep.Header, o.Assume, o.Goal, t, all && o.Kind != "vacuity")
					mu.Lock()
					cache[key] = qr
					mu.Unlock()
				}
				o.Result, o.Solver, o.TimeS, o.Model, o.Results, o.File = qr.Result, qr.Solver, qr.TimeS, qr.Model, qr.PerSolver, qr.File
			}
		}()
	}
	for _, j := range jobs {
		ch <- j
	}
	close(ch)
	wg.Wait()
	// second pass: an obligation on which no solver answered and at least one ran out of time is tried again,
	// two at a time and with three times the budget – on a loaded machine the first pass shares the cores with everything else,
	// and a timeout must not be reported as a violation when the goal is provable given the time.
	var again []job
	for _, j := range jobs {
		o := j.o
		if o.Kind == "vacuity" || o.Result != "unknown" || len(o.Results) == 0 || timeoutS >= 60 || o.Kind == "known" {
			continue
		}
		allTimeout := false // at least one solver ran out of time (the others gave up or failed): more time may decide it
		for _, r := range o.Results {
			allTimeout = allTimeout || r == "timeout"
		}
		if allTimeout {
			again = append(again, j)
		}
	}
	if len(again) > 0 && len(again) <= 12 {
		sem := make(chan struct{}, 2)
		var wg2 sync.WaitGroup
		for _, j := range again {
			wg2.Add(1)
			sem <- struct{}{}
			go func(j job) {
				defer wg2.Done()
				defer func() { <-sem }()
				o := j.o
				first := o.TimeS
				qr := Solve(dir, o.Name+".retry", j.rep.Header, o.Assume, o.Goal, 3*timeoutS, all)
				o.Result, o.Solver, o.TimeS, o.Model, o.Results, o.File = qr.Result, qr.Solver, first+qr.TimeS, qr.Model, qr.PerSolver, qr.File
				o.Retried = true
			}(j)
		}
		wg2.Wait()
	}
}

// solveRaw races the solvers on a complete script.
func solveRaw(dir, name, text string, timeoutS int) QueryResult {
	h := sha256.Sum256([]byte(text))
	file := filepath.Join(dir, fmt.Sprintf("%s_%x.smt2", sanitize(trunc(name, 80)), h[:6]))
	if err := os.WriteFile(file, []byte(text), 0o644); err != nil {
		return QueryResult{Result: "error", Model: err.Error()}
	}
	ctx, cancel := context.WithCancel(context.Background())
	defer cancel()
	type res struct {
		solver, r, out string
		t              float64
	}
	ch := make(chan res, len(solvers))
	for _, s := range solvers {
		go func(s Solver) {
			r, out, t := runSolver(ctx, s, file, timeoutS)
			ch <- res{s.Name, r, out, t}
		}(s)
	}
	qr := QueryResult{Result: "unknown", PerSolver: map[string]string{}, File: file}
	for i := 0; i < len(solvers); i++ {
		r := <-ch
		qr.PerSolver[r.solver] = r.r
		if (r.r == "unsat" || r.r == "sat") && qr.Result == "unknown" {
			qr.Result, qr.Solver, qr.TimeS, qr.Model = r.r, r.solver, r.t, r.out
			cancel()
			break
		}
	}
	return qr
}
