package main

// SMT-LIB term construction, Go type -> SMT sort mapping, declarations.

import (
	"fmt"
	"go/types"
	"sort"
	"strings"
)

const two64 = "18446744073709551616"
const two63 = "9223372036854775808"
const two32 = "4294967296"
const two31 = "2147483648"

// zero time.Time{} in unix nanoseconds (0001-01-01T00:00:00Z)
const timeZeroNanos = "(- 62135596800000000000)"

func app(f string, args ...string) string {
	if len(args) == 0 {
		return f
	}
	return "(" + f + " " + strings.Join(args, " ") + ")"
}
func and(xs ...string) string {
	var ys []string
	for _, x := range xs {
		if x == "true" || x == "" {
			continue
		}
		if x == "false" {
			return "false"
		}
		ys = append(ys, x)
	}
	if len(ys) == 0 {
		return "true"
	}
	if len(ys) == 1 {
		return ys[0]
	}
	return app("and", ys...)
}
func or(xs ...string) string {
	var ys []string
	for _, x := range xs {
		if x == "false" || x == "" {
			continue
		}
		if x == "true" {
			return "true"
		}
		ys = append(ys, x)
	}
	if len(ys) == 0 {
		return "false"
	}
	if len(ys) == 1 {
		return ys[0]
	}
	return app("or", ys...)
}
func not(x string) string {
	if x == "true" {
		return "false"
	}
	if x == "false" {
		return "true"
	}
	if strings.HasPrefix(x, "(not ") && balanced(x[5:len(x)-1]) {
		return x[5 : len(x)-1]
	}
	return app("not", x)
}
func balanced(s string) bool {
	d := 0
	for _, c := range s {
		if c == '(' {
			d++
		} else if c == ')' {
			d--
			if d < 0 {
				return false
			}
		}
	}
	return d == 0
}
func implies(a, b string) string {
	if a == "true" {
		return b
	}
	if a == "false" || b == "true" {
		return "true"
	}
	return app("=>", a, b)
}
func eq(a, b string) string {
	if a == b {
		return "true"
	}
	if isNumeral(a) && isNumeral(b) {
		return "false"
	}
	if r, ok := constEq(a, b); ok {
		if r {
			return "true"
		}
		return "false"
	}
	// (= (ite c x y) k) with x,y,k constants known to be equal/different
	if strings.HasPrefix(a, "(ite ") && (b == "0" || isNonZeroConst(b)) {
		p := splitTop(a[1 : len(a)-1])
		if len(p) == 4 {
			x, xk := constEq(p[2], b)
			y, yk := constEq(p[3], b)
			if xk && yk {
				switch {
				case x && y:
					return "true"
				case x && !y:
					return p[1]
				case !x && y:
					return not(p[1])
				default:
					return "false"
				}
			}
		}
	}
	return app("=", a, b)
}

// isNonZeroConst: error identities that are non-zero by construction.
func isNonZeroConst(t string) bool {
	if isNumeral(t) {
		return t != "0"
	}
	return strings.HasPrefix(t, "ERR_") || strings.HasPrefix(t, "G_") || strings.HasPrefix(t, "err!")
}

// constEq decides syntactically whether constant t equals constant k (second result: decided).
func constEq(t, k string) (bool, bool) {
	if t == k {
		return true, true
	}
	if k == "0" && isNonZeroConst(t) {
		return false, true
	}
	if t == "0" && isNonZeroConst(k) {
		return false, true
	}
	return false, false
}
func ite(c, a, b string) string {
	if c == "true" {
		return a
	}
	if c == "false" {
		return b
	}
	if a == b {
		return a
	}
	return app("ite", c, a, b)
}
func intLit(n int64) string {
	if n < 0 {
		return fmt.Sprintf("(- %d)", -n)
	}
	return fmt.Sprintf("%d", n)
}

// Enc holds per-run SMT declarations derived from Go types.
type Enc struct {
	dtOrder   []string          // datatype declarations, in dependency order
	dtDone    map[string]bool   // sort name -> declared
	dtBusy    map[string]bool   // recursion guard
	structOf  map[string]*types.Struct
	decls     []string          // declare-fun / declare-const / declare-sort
	declSeen  map[string]bool
	axioms    []string
	lits      map[string]string // string literal -> const name
	litOrder  []string
	fresh     int
	sortCache map[types.Type]string
	usedAssum map[string]bool // assumption tags used
	grounded  map[string]bool
	named     map[string]string // literals declared by the prelude
	axiomSet  map[string]bool
	funRet    map[string]string // engine-declared uninterpreted functions
}

func NewEnc() *Enc {
	return &Enc{dtDone: map[string]bool{}, dtBusy: map[string]bool{}, structOf: map[string]*types.Struct{},
		declSeen: map[string]bool{}, lits: map[string]string{}, sortCache: map[types.Type]string{}, usedAssum: map[string]bool{}}
}

func (e *Enc) Fresh(prefix string) string {
	e.fresh++
	return fmt.Sprintf("%s!%d", sanitize(prefix), e.fresh)
}

func sanitize(s string) string {
	var b strings.Builder
	for _, c := range s {
		switch {
		case c >= 'a' && c <= 'z', c >= 'A' && c <= 'Z', c >= '0' && c <= '9', c == '_', c == '.', c == '!', c == '$':
			b.WriteRune(c)
		default:
			b.WriteByte('_')
		}
	}
	return b.String()
}

func (e *Enc) Declare(name, sig string) {
	if e.declSeen[name] {
		return
	}
	e.declSeen[name] = true
	e.decls = append(e.decls, sig)
}
func (e *Enc) DeclConst(name, sort string) string {
	e.Declare(name, fmt.Sprintf("(declare-const %s %s)", name, sort))
	return name
}
func (e *Enc) DeclFun(name string, args []string, ret string) string {
	e.Declare(name, fmt.Sprintf("(declare-fun %s (%s) %s)", name, strings.Join(args, " "), ret))
	if e.funRet == nil {
		e.funRet = map[string]string{}
	}
	e.funRet[name] = ret
	return name
}
func (e *Enc) FreshConst(prefix, sort string) string {
	return e.DeclConst(e.Fresh(prefix), sort)
}
func (e *Enc) Axiom(a string) {
	if a == "true" {
		return
	}
	if e.axiomSet == nil {
		e.axiomSet = map[string]bool{}
	}
	if e.axiomSet[a] {
		return
	}
	e.axiomSet[a] = true
	e.axioms = append(e.axioms, a)
}

// Lit returns the Bytes constant for a Go string literal.
func (e *Enc) Lit(s string) string {
	if s == "" {
		return "bempty"
	}
	if c, ok := e.lits[s]; ok {
		return c
	}
	if c, ok := e.named[s]; ok {
		e.lits[s] = c
		e.litOrder = append(e.litOrder, s)
		return c
	}
	c := fmt.Sprintf("lit%d_%s", len(e.lits), sanitize(trunc(s, 24)))
	e.lits[s] = c
	e.litOrder = append(e.litOrder, s)
	return c
}
func trunc(s string, n int) string {
	if len(s) > n {
		return s[:n]
	}
	return s
}

const basePrelude = `
(set-option :produce-models true)
(set-logic ALL)
(declare-sort Bytes 0)
(declare-sort Iface 0)
(declare-sort Opaque 0)
(declare-datatypes ((Opt 1)) ((par (T) ((None) (Some (val T))))))
(declare-datatypes ((Pair 2)) ((par (A B) ((mkpair (fst A) (snd B))))))
(declare-datatypes ((GSeq 1)) ((par (T) ((mkseq (gseq.arr (Array Int T)) (gseq.len Int))))))
(declare-fun blen (Bytes) Int)
(declare-const bempty Bytes)
(declare-fun bnil (Bytes) Bool)
(declare-fun bcat (Bytes Bytes) Bytes)
(declare-fun itype (Iface) Int)
(define-fun wrap.i64 ((x Int)) Int (ite (< x (- 9223372036854775808)) (+ x 18446744073709551616) (ite (>= x 9223372036854775808) (- x 18446744073709551616) x)))
(define-fun wrap.u64 ((x Int)) Int (ite (< x 0) (+ x 18446744073709551616) (ite (>= x 18446744073709551616) (- x 18446744073709551616) x)))
(declare-const iface_nil Iface)
(assert (= (itype iface_nil) 0))
(assert (= (blen bempty) 0))
`

// Header renders prelude + all declarations.
func (e *Enc) Header(extraPrelude string) string {
	var b strings.Builder
	b.WriteString(basePrelude)
	for _, d := range e.dtOrder {
		b.WriteString(d)
		b.WriteString("\n")
	}
	// literals
	for _, s := range e.litOrder {
		c := e.lits[s]
		if _, isNamed := e.named[s]; isNamed {
			continue
		}
		fmt.Fprintf(&b, "(declare-const %s Bytes)\n(assert (= (blen %s) %d))\n", c, c, len(s))
	}
	b.WriteString(extraPrelude)
	b.WriteString("\n")
	// all string literals (named ones are declared by the prelude) are pairwise distinct
	{
		seen := map[string]bool{}
		var cs []string
		for _, s := range e.litOrder {
			if !seen[e.lits[s]] {
				seen[e.lits[s]] = true
				cs = append(cs, e.lits[s])
			}
		}
		for _, s := range sortedKeys(e.named) {
			if !seen[e.named[s]] {
				seen[e.named[s]] = true
				cs = append(cs, e.named[s])
			}
		}
		if len(cs) > 1 {
			fmt.Fprintf(&b, "(assert (distinct bempty %s))\n", strings.Join(cs, " "))
		}
	}
	for _, d := range e.decls {
		b.WriteString(d)
		b.WriteString("\n")
	}
	for _, a := range e.axioms {
		fmt.Fprintf(&b, "(assert %s)\n", a)
	}
	return b.String()
}

func typeKey(t types.Type) string { return types.TypeString(t, nil) }

func namedPath(t types.Type) string {
	if n, ok := t.(*types.Named); ok {
		o := n.Obj()
		if o.Pkg() != nil {
			return o.Pkg().Path() + "." + o.Name()
		}
		return o.Name()
	}
	if a, ok := t.(*types.Alias); ok {
		return namedPath(types.Unalias(a))
	}
	return ""
}

func shortPkg(path string) string {
	parts := strings.Split(path, "/")
	if len(parts) >= 2 {
		return parts[len(parts)-2] + "_" + parts[len(parts)-1]
	}
	return path
}

// Sort maps a Go type to an SMT sort, declaring datatypes on demand.
func (e *Enc) Sort(t types.Type) string {
	if s, ok := e.sortCache[t]; ok {
		return s
	}
	s := e.sort0(t)
	e.sortCache[t] = s
	if strings.HasPrefix(s, "(GSeq ") || strings.HasPrefix(s, "(Opt ") || strings.HasPrefix(s, "(Pair ") {
		// z3 instantiates parametric datatypes only for sorts that are mentioned in a declaration
		e.DeclConst("inst."+sanitize(s), s)
	}
	return s
}

func isByte(t types.Type) bool {
	b, ok := t.Underlying().(*types.Basic)
	return ok && (b.Kind() == types.Uint8)
}

func (e *Enc) sort0(t types.Type) string {
	t = types.Unalias(t)
	switch namedPath(t) {
	case "cosmossdk.io/math.Int", "cosmossdk.io/math.Uint":
		return "Int"
	case "cosmossdk.io/math.LegacyDec":
		return "Int" // value * 10^18 (18-decimal fixed point), see intrinsics_coin.go
	case "time.Time", "time.Duration":
		return "Int"
	case "math/big.Int":
		return "Int"
	case "cosmossdk.io/core/address.Codec":
		return "Int"
	}
	// collections.Pair[A,B]
	if n, ok := t.(*types.Named); ok && n.Obj().Pkg() != nil && n.Obj().Pkg().Path() == "cosmossdk.io/collections" && n.Obj().Name() == "Pair" {
		ta := n.TypeArgs()
		if ta != nil && ta.Len() == 2 {
			return fmt.Sprintf("(Pair %s %s)", e.Sort(ta.At(0)), e.Sort(ta.At(1)))
		}
	}
	switch u := t.Underlying().(type) {
	case *types.Basic:
		switch {
		case u.Info()&types.IsBoolean != 0:
			return "Bool"
		case u.Info()&types.IsInteger != 0:
			return "Int"
		case u.Info()&types.IsString != 0:
			return "Bytes"
		case u.Info()&types.IsFloat != 0:
			return "Real"
		case u.Kind() == types.UntypedNil:
			return "Opaque"
		}
		return "Opaque"
	case *types.Slice:
		if isByte(u.Elem()) {
			return "Bytes"
		}
		return fmt.Sprintf("(GSeq %s)", e.Sort(u.Elem()))
	case *types.Array:
		if isByte(u.Elem()) {
			return "Bytes"
		}
		return fmt.Sprintf("(GSeq %s)", e.Sort(u.Elem()))
	case *types.Pointer:
		el := u.Elem()
		if _, ok := el.Underlying().(*types.Struct); ok {
			return fmt.Sprintf("(Opt %s)", e.Sort(el))
		}
		return "Opaque"
	case *types.Interface:
		if isErrorType(t) {
			return "Int"
		}
		return "Iface"
	case *types.Map:
		return fmt.Sprintf("(Array %s (Opt %s))", e.Sort(u.Key()), e.Sort(u.Elem()))
	case *types.Struct:
		return e.structSort(t, u)
	case *types.Tuple:
		return "Opaque"
	}
	return "Opaque"
}

func isErrorType(t types.Type) bool {
	return types.Identical(t, types.Universe.Lookup("error").Type())
}

func (e *Enc) structName(t types.Type) string {
	p := namedPath(t)
	if p == "" {
		return "S_anon_" + sanitize(typeKey(t))
	}
	i := strings.LastIndex(p, ".")
	name := "S_" + sanitize(shortPkg(p[:i])) + "_" + sanitize(p[i+1:])
	if n, ok := t.(*types.Named); ok && n.TypeArgs() != nil && n.TypeArgs().Len() > 0 {
		name += "_" + sanitize(typeKey(n.TypeArgs().At(0)))
	}
	return name
}

func (e *Enc) structSort(t types.Type, st *types.Struct) string {
	name := e.structName(t)
	if e.dtDone[name] {
		return name
	}
	if e.dtBusy[name] {
		// recursive type: cut
		return "Opaque"
	}
	e.dtBusy[name] = true
	var fields []string
	for i := 0; i < st.NumFields(); i++ {
		f := st.Field(i)
		fs := e.Sort(f.Type())
		fields = append(fields, fmt.Sprintf("(%s.%s %s)", name, f.Name(), fs))
	}
	delete(e.dtBusy, name)
	e.dtDone[name] = true
	e.structOf[name] = st
	if len(fields) == 0 {
		e.dtOrder = append(e.dtOrder, fmt.Sprintf("(declare-datatypes ((%s 0)) (((mk.%s))))", name, name))
	} else {
		e.dtOrder = append(e.dtOrder, fmt.Sprintf("(declare-datatypes ((%s 0)) (((mk.%s %s))))", name, name, strings.Join(fields, " ")))
	}
	return name
}

// Sel builds a field selector application on a struct term.
func (e *Enc) Sel(structType types.Type, idx int, term string) string {
	st := structType.Underlying().(*types.Struct)
	name := e.Sort(structType)
	if name == "Opaque" {
		return e.FreshConst("opaquefield", e.Sort(st.Field(idx).Type()))
	}
	// simplify (sel (mk ...)) when syntactically a constructor application
	if strings.HasPrefix(term, "(mk."+name+" ") {
		parts := splitTop(term[1 : len(term)-1])
		if len(parts) == st.NumFields()+1 {
			return parts[idx+1]
		}
	}
	return app(name+"."+st.Field(idx).Name(), term)
}

// Upd rebuilds a struct term with one field replaced.
func (e *Enc) Upd(structType types.Type, idx int, term, val string) string {
	st := structType.Underlying().(*types.Struct)
	name := e.Sort(structType)
	if name == "Opaque" {
		return term
	}
	args := make([]string, st.NumFields())
	for i := range args {
		if i == idx {
			args[i] = val
		} else {
			args[i] = e.Sel(structType, i, term)
		}
	}
	return app("mk."+name, args...)
}

func splitTop(s string) []string {
	var out []string
	d := 0
	start := -1
	for i, c := range s {
		switch c {
		case '(':
			if d == 0 && start < 0 {
				start = i
			}
			d++
		case ')':
			d--
			if d == 0 {
				out = append(out, s[start:i+1])
				start = -1
			}
		case ' ', '\n', '\t':
			if d == 0 && start >= 0 {
				out = append(out, s[start:i])
				start = -1
			}
		default:
			if d == 0 && start < 0 {
				start = i
			}
		}
	}
	if start >= 0 {
		out = append(out, s[start:])
	}
	return out
}

// Zero returns the zero value term of a Go type.
func (e *Enc) Zero(t types.Type) string {
	t = types.Unalias(t)
	switch namedPath(t) {
	case "time.Time":
		return timeZeroNanos
	}
	s := e.Sort(t)
	return e.zeroOfSort(s, t)
}

func (e *Enc) zeroOfSort(s string, t types.Type) string {
	switch {
	case s == "Bool":
		return "false"
	case s == "Int":
		return "0"
	case s == "Real":
		return "0.0"
	case s == "Bytes":
		if _, ok := t.Underlying().(*types.Array); ok {
			n := t.Underlying().(*types.Array).Len()
			return e.ZeroBytes(n)
		}
		return "bempty"
	case s == "Iface":
		return "iface_nil"
	case s == "Opaque":
		return e.DeclConst("opaque_zero", "Opaque")
	case strings.HasPrefix(s, "(Opt "):
		return fmt.Sprintf("(as None %s)", s)
	case strings.HasPrefix(s, "(GSeq "):
		var et types.Type
		n := int64(0)
		switch u := t.Underlying().(type) {
		case *types.Slice:
			et = u.Elem()
		case *types.Array:
			et = u.Elem()
			n = u.Len()
		}
		inner := s[6 : len(s)-1]
		if n == 0 {
			// empty/nil slice: the backing array is irrelevant; one canonical uninterpreted constant per element sort
			// (cvc5 rejects constant arrays whose default is not a value)
			z := e.DeclConst("zarr."+sanitize(inner), fmt.Sprintf("(Array Int %s)", inner))
			return fmt.Sprintf("(mkseq %s 0)", z)
		}
		return fmt.Sprintf("(mkseq ((as const (Array Int %s)) %s) %d)", inner, e.Zero(et), n)
	case strings.HasPrefix(s, "(Array "):
		m := t.Underlying().(*types.Map)
		return fmt.Sprintf("((as const %s) (as None (Opt %s)))", s, e.Sort(m.Elem()))
	case strings.HasPrefix(s, "(Pair "):
		n := t.(*types.Named)
		return app("mkpair", e.Zero(n.TypeArgs().At(0)), e.Zero(n.TypeArgs().At(1)))
	}
	if st, ok := t.Underlying().(*types.Struct); ok {
		args := make([]string, st.NumFields())
		for i := range args {
			args[i] = e.Zero(st.Field(i).Type())
		}
		return app("mk."+s, args...)
	}
	return e.FreshConst("zero", s)
}

// ZeroBytes: a constant for n zero bytes.
func (e *Enc) ZeroBytes(n int64) string {
	name := fmt.Sprintf("bzeros%d", n)
	if !e.declSeen[name] {
		e.DeclConst(name, "Bytes")
		e.Axiom(fmt.Sprintf("(= (blen %s) %d)", name, n))
	}
	return name
}

// TypeFacts returns range facts for a term of Go type t (shallow + struct fields).
func (e *Enc) TypeFacts(term string, t types.Type, depth int) []string {
	t = types.Unalias(t)
	var out []string
	switch namedPath(t) {
	case "cosmossdk.io/math.Int", "cosmossdk.io/math.LegacyDec", "time.Time", "math/big.Int":
		return nil
	case "cosmossdk.io/math.Uint":
		return []string{app(">=", term, "0")}
	case "time.Duration":
		return []string{app(">=", term, "(- "+two63+")"), app("<", term, two63)}
	}
	switch u := t.Underlying().(type) {
	case *types.Basic:
		lo, hi := intRange(u)
		if lo != "" {
			out = append(out, app(">=", term, lo), app("<", term, hi))
		}
		if u.Info()&types.IsString != 0 {
			out = append(out, bytesFacts(term)...)
		}
	case *types.Array:
		if isByte(u.Elem()) {
			out = append(out, eq(app("blen", term), intLit(u.Len())))
		} else {
			out = append(out, eq(app("gseq.len", term), intLit(u.Len())))
		}
	case *types.Slice:
		if !isByte(u.Elem()) {
			out = append(out, app(">=", app("gseq.len", term), "0"), app("<", app("gseq.len", term), two63))
		} else {
			out = append(out, bytesFacts(term)...)
		}
	case *types.Struct:
		if depth > 3 || e.Sort(t) == "Opaque" {
			return nil
		}
		for i := 0; i < u.NumFields(); i++ {
			out = append(out, e.TypeFacts(e.Sel(t, i, term), u.Field(i).Type(), depth+1)...)
		}
	}
	return out
}

func intRange(b *types.Basic) (string, string) {
	switch b.Kind() {
	case types.Uint64, types.Uint, types.Uintptr:
		return "0", two64
	case types.Int64, types.Int:
		return "(- " + two63 + ")", two63
	case types.Uint32:
		return "0", two32
	case types.Int32:
		return "(- " + two31 + ")", two31
	case types.Uint8:
		return "0", "256"
	case types.Int8:
		return "(- 128)", "128"
	case types.Uint16:
		return "0", "65536"
	case types.Int16:
		return "(- 32768)", "32768"
	}
	return "", ""
}

func sortedKeys[V any](m map[string]V) []string {
	ks := make([]string, 0, len(m))
	for k := range m {
		ks = append(ks, k)
	}
	sort.Strings(ks)
	return ks
}

// bytesFacts: ground instances of the byte-string axioms for one term
// (len >= 0; len == 0 iff the value is the empty string).
// isNoneT / isSomeT: option tests written without testers (z3 cannot resolve testers of
// parametric datatypes once several instances exist).
func isNoneT(t, optSort string) string { return eq(t, "(as None "+optSort+")") }
func isSomeT(t, optSort string) string { return not(isNoneT(t, optSort)) }

func bytesFacts(t string) []string {
	if t == "bempty" {
		return nil
	}
	return []string{app(">=", app("blen", t), "0"), app("<", app("blen", t), two63), eq(eq(app("blen", t), "0"), eq(t, "bempty"))}
}

// GroundBytes adds ground instances of the byte-string axioms for a constructed term.
func (e *Enc) GroundBytes(t string) {
	if e.grounded == nil {
		e.grounded = map[string]bool{}
	}
	if e.grounded[t] || t == "bempty" {
		return
	}
	e.grounded[t] = true
	for _, f := range bytesFacts(t) {
		e.Axiom(f)
	}
	if !strings.HasPrefix(t, "(") {
		return
	}
	p := splitTop(t[1 : len(t)-1])
	switch p[0] {
	case "bcat":
		if len(p) == 3 {
			e.Axiom(eq(app("blen", t), app("+", app("blen", p[1]), app("blen", p[2]))))
			e.GroundBytes(p[1])
			e.GroundBytes(p[2])
		}
	case "be64", "le64":
		e.Axiom(eq(app("blen", t), "8"))
	case "be32":
		e.Axiom(eq(app("blen", t), "4"))
	case "b1":
		e.Axiom(eq(app("blen", t), "1"))
	case "bslice":
		if len(p) == 4 {
			e.Axiom(implies(and(app("<=", "0", p[2]), app("<=", p[2], p[3]), app("<=", p[3], app("blen", p[1]))), eq(app("blen", t), app("-", p[3], p[2]))))
			e.Axiom(implies(and(eq(p[2], "0"), eq(p[3], app("blen", p[1]))), eq(t, p[1])))
			e.GroundBytes(p[1])
		}
	case "addrModule":
		e.Axiom(eq(app("blen", t), "32"))
	}
}
