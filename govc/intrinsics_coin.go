package main

// Coin algebra of the cosmos-sdk used by the L2 fee floor (C20), as assumed contracts (A-COIN).
//
// math.LegacyDec is an 18-decimal fixed point number: it is encoded as the Int  v * 10^18  (exact for the operations
// used: comparison, Add, Sub, MulInt, Ceil, RoundInt of an integral value).
//
// A coin list is related to its "amount of a denom" view by a validity predicate (what DecCoins.Validate / Coins.Validate
// and the SDK constructors guarantee: distinct denoms; AmountOf finds the entry of a denom or yields zero):
//   dcValid(l):  forall j. dcAmt(l, l[j].Denom) = l[j].Amount  and  l[j].Amount > 0
//                forall d. (forall j. l[j].Denom != d) => dcAmt(l, d) = 0          and pairwise distinct denoms
//   cValid(l):   the same for sdk.Coins with Amount >= 0
// dcValid / cValid are macros of the spec language (expanded to these quantified formulas), dcAmt / cAmt are functions.

import (
	"fmt"
	"go/types"
)

const decK = "1000000000000000000"

type coinTypes struct {
	dec, decCoin, decCoins, coin, coins types.Type
}

func (x *Exec) coinTypes() (coinTypes, bool) {
	sp := x.L.Prog.ImportedPackage("github.com/cosmos/cosmos-sdk/types")
	mp := x.L.Prog.ImportedPackage("cosmossdk.io/math")
	if sp == nil || mp == nil || sp.Type("DecCoin") == nil || sp.Type("Coin") == nil || mp.Type("LegacyDec") == nil {
		return coinTypes{}, false
	}
	return coinTypes{dec: mp.Type("LegacyDec").Type(), decCoin: sp.Type("DecCoin").Type(), decCoins: sp.Type("DecCoins").Type(),
		coin: sp.Type("Coin").Type(), coins: sp.Type("Coins").Type()}, true
}

func (x *Exec) amtFun(dec bool) string {
	ct, _ := x.coinTypes()
	if dec {
		return x.enc.DeclFun("dcAmt", []string{x.enc.Sort(ct.decCoins), "Bytes"}, "Int")
	}
	return x.enc.DeclFun("cAmt", []string{x.enc.Sort(ct.coins), "Bytes"}, "Int")
}

// coinValid expands the validity predicate of a coin list term.
func (x *Exec) coinValid(l string, dec bool) string {
	ct, ok := x.coinTypes()
	if !ok {
		return "true"
	}
	e := x.enc
	elemT := ct.coin
	cmp := ">="
	if dec {
		elemT = ct.decCoin
		cmp = ">"
	}
	amt := x.amtFun(dec)
	es := e.Sort(elemT)
	el := func(j string) string { return app("select", app("gseq.arr", l), j) }
	den := func(j string) string { return app(es+".Denom", el(j)) }
	am := func(j string) string { return app(es+".Amount", el(j)) }
	n := app("gseq.len", l)
	inr := func(j string) string { return and(app("<=", "0", j), app("<", j, n)) }
	a1 := fmt.Sprintf("(forall ((j Int)) (! (=> %s (and (= (%s %s %s) %s) (%s %s 0))) :pattern (%s)))", inr("j"), amt, l, den("j"), am("j"), cmp, am("j"), el("j"))
	a2 := fmt.Sprintf("(forall ((d Bytes)) (! (=> (forall ((j Int)) (=> %s (not (= %s d)))) (= (%s %s d) 0)) :pattern ((%s %s d))))", inr("j"), den("j"), amt, l, amt, l)
	a3 := fmt.Sprintf("(forall ((i Int) (j Int)) (=> (and (<= 0 i) (< i j) (< j %s)) (not (= %s %s))))", n, den("i"), den("j"))
	a4 := fmt.Sprintf("(forall ((d Bytes)) (! (>= (%s %s d) 0) :pattern ((%s %s d))))", amt, l, amt, l)
	// a positive amount of a denom is the amount of an entry
	a5 := fmt.Sprintf("(forall ((d Bytes)) (! (=> (not (= (%s %s d) 0)) (exists ((j Int)) (and %s (= %s d) (= %s (%s %s d))))) :pattern ((%s %s d))))", amt, l, inr("j"), den("j"), am("j"), amt, l, amt, l)
	return and(a1, a2, a3, a4, a5)
}

// CoinSpec: spec-language access to the coin model.
func (c *cenv) CoinSpec(name string, args []SV) (SV, bool) {
	x := c.x
	if _, ok := x.coinTypes(); !ok {
		return SV{}, false
	}
	switch name {
	case "dcValid":
		return SV{T: x.coinValid(args[0].T, true), Sort: "Bool"}, true
	case "cValid":
		return SV{T: x.coinValid(args[0].T, false), Sort: "Bool"}, true
	case "dcAmt":
		return SV{T: app(x.amtFun(true), args[0].T, args[1].T), Sort: "Int"}, true
	case "cAmt":
		return SV{T: app(x.amtFun(false), args[0].T, args[1].T), Sort: "Int"}, true
	case "feeFor":
		// ceil(gas * price) for a price scaled by 10^18
		return SV{T: ceilDivK(app("*", args[0].T, args[1].T)), Sort: "Int"}, true
	}
	return SV{}, false
}

func ceilDivK(s string) string { return app("-", app("div", app("-", s), decK)) }

func init() {
	decT := func(c *CallCtx, t string) TV { ct, _ := c.x.coinTypes(); return TV{T: t, Ty: ct.dec} }
	reg("(cosmossdk.io/math.LegacyDec).IsZero", "LegacyDec.IsZero", func(c *CallCtx) []Outcome { return c.ret(TV{T: eq(c.t(0), "0"), Ty: tBool}) })
	reg("(cosmossdk.io/math.LegacyDec).IsPositive", "LegacyDec.IsPositive", func(c *CallCtx) []Outcome { return c.ret(TV{T: app(">", c.t(0), "0"), Ty: tBool}) })
	reg("(cosmossdk.io/math.LegacyDec).IsNegative", "LegacyDec.IsNegative", func(c *CallCtx) []Outcome { return c.ret(TV{T: app("<", c.t(0), "0"), Ty: tBool}) })
	for n, op := range map[string]string{"LT": "<", "LTE": "<=", "GT": ">", "GTE": ">="} {
		op := op
		reg("(cosmossdk.io/math.LegacyDec)."+n, "LegacyDec."+n+" compares the values", func(c *CallCtx) []Outcome {
			return c.ret(TV{T: app(op, c.t(0), c.t(1)), Ty: tBool})
		})
	}
	reg("(cosmossdk.io/math.LegacyDec).Equal", "LegacyDec.Equal", func(c *CallCtx) []Outcome { return c.ret(TV{T: eq(c.t(0), c.t(1)), Ty: tBool}) })
	reg("(cosmossdk.io/math.LegacyDec).Add", "LegacyDec.Add is exact addition", func(c *CallCtx) []Outcome { return c.ret(decT(c, app("+", c.t(0), c.t(1)))) })
	reg("(cosmossdk.io/math.LegacyDec).Sub", "LegacyDec.Sub is exact subtraction", func(c *CallCtx) []Outcome { return c.ret(decT(c, app("-", c.t(0), c.t(1)))) })
	reg("(cosmossdk.io/math.LegacyDec).MulInt", "LegacyDec.MulInt(i) is exact multiplication by an integer", func(c *CallCtx) []Outcome {
		return c.ret(decT(c, app("*", c.t(0), c.t(1))))
	})
	reg("(cosmossdk.io/math.LegacyDec).Ceil", "LegacyDec.Ceil rounds up to the next integral value", func(c *CallCtx) []Outcome {
		return c.ret(decT(c, app("*", ceilDivK(c.t(0)), decK)))
	})
	reg("(cosmossdk.io/math.LegacyDec).RoundInt", "LegacyDec.RoundInt of an integral value is that integer (other values: banker's rounding, left uninterpreted)", func(c *CallCtx) []Outcome {
		e := c.x.enc
		f := e.DeclFun("decRound", []string{"Int"}, "Int")
		t := c.t(0)
		return c.ret(TV{T: ite(eq(app("mod", t, decK), "0"), app("div", t, decK), app(f, t)), Ty: c.resultType(0)})
	})
	reg("(cosmossdk.io/math.LegacyDec).TruncateInt", "LegacyDec.TruncateInt truncates toward zero", func(c *CallCtx) []Outcome {
		t := c.t(0)
		return c.ret(TV{T: ite(app(">=", t, "0"), app("div", t, decK), app("-", app("div", app("-", t), decK))), Ty: c.resultType(0)})
	})
	reg("cosmossdk.io/math.LegacyZeroDec", "LegacyZeroDec() = 0", func(c *CallCtx) []Outcome { return c.ret(decT(c, "0")) })

	// ---- DecCoin / DecCoins ------------------------------------------------------------------------------------
	reg("github.com/cosmos/cosmos-sdk/types.NewDecCoinFromDec", "NewDecCoinFromDec(denom, amount) panics on an invalid denom or a negative amount, else is the pair", func(c *CallCtx) []Outcome {
		ct, _ := c.x.coinTypes()
		e := c.x.enc
		e.DeclFun("validDenom", []string{"Bytes"}, "Bool")
		c.x.panicUnless(c, and(app("validDenom", c.t(0)), app(">=", c.t(1), "0")), "NewDecCoinFromDec")
		return c.ret(TV{T: app("mk."+e.Sort(ct.decCoin), c.t(0), c.t(1)), Ty: ct.decCoin})
	})
	reg("(github.com/cosmos/cosmos-sdk/types.DecCoin).Sub", "DecCoin.Sub panics on different denoms or a negative result, else subtracts the amounts", func(c *CallCtx) []Outcome {
		ct, _ := c.x.coinTypes()
		e := c.x.enc
		s := e.Sort(ct.decCoin)
		a, b := c.t(0), c.t(1)
		d := app("-", app(s+".Amount", a), app(s+".Amount", b))
		c.x.panicUnless(c, and(eq(app(s+".Denom", a), app(s+".Denom", b)), app(">=", d, "0")), "DecCoin.Sub")
		return c.ret(TV{T: app("mk."+s, app(s+".Denom", a), d), Ty: ct.decCoin})
	})
	reg("(github.com/cosmos/cosmos-sdk/types.DecCoins).AmountOf", "DecCoins.AmountOf(denom): the amount of that denom in a valid list, zero if absent (A-COIN)", func(c *CallCtx) []Outcome {
		return c.ret(decT(c, app(c.x.amtFun(true), c.t(0), c.t(1))))
	})
	reg("(github.com/cosmos/cosmos-sdk/types.DecCoins).Add", "DecCoins.Add(coin): a valid list whose amount of every denom is the sum; panics on a negative coin (A-COIN; modelled for one added coin)", func(c *CallCtx) []Outcome {
		ct, _ := c.x.coinTypes()
		e := c.x.enc
		x := c.x
		extra := x.asTV(c.st, c.args[1])
		s := e.Sort(ct.decCoin)
		if seqLen(extra.T) != "1" {
			// several coins at once: result left abstract (valid, nothing known about its amounts)
			r := x.freshTV("deccoins", ct.decCoins, c.st)
			c.st.Assume(x.coinValid(r.T, true))
			x.warn("DecCoins.Add with several coins: amounts of the result left abstract")
			return c.ret(r)
		}
		coin := app("select", app("gseq.arr", extra.T), "0")
		x.panicUnless(c, app(">=", app(s+".Amount", coin), "0"), "DecCoins.Add")
		ok := c.st
		r := x.freshTV("deccoins", ct.decCoins, ok)
		amt := x.amtFun(true)
		ok.Assume(x.coinValid(r.T, true))
		ok.Assume(fmt.Sprintf("(forall ((d Bytes)) (! (= (%s %s d) (+ (%s %s d) (ite (= d %s) %s 0))) :pattern ((%s %s d))))", amt, r.T, amt, c.t(0), app(s+".Denom", coin), app(s+".Amount", coin), amt, r.T))
		return c.ret(r)
	})
	reg("(github.com/cosmos/cosmos-sdk/types.DecCoins).Sort", "DecCoins.Sort: the same coins in denom order (same amounts of every denom; valid if the denoms are distinct and the amounts positive)", func(c *CallCtx) []Outcome {
		ct, _ := c.x.coinTypes()
		x := c.x
		r := x.freshTV("sorted", ct.decCoins, c.st)
		amt := x.amtFun(true)
		c.st.Assume(eq(app("gseq.len", r.T), app("gseq.len", c.t(0))))
		c.st.Assume(fmt.Sprintf("(forall ((d Bytes)) (! (= (%s %s d) (%s %s d)) :pattern ((%s %s d))))", amt, r.T, amt, c.t(0), amt, r.T))
		c.st.Assume(implies(x.coinValid(c.t(0), true), x.coinValid(r.T, true)))
		return c.ret(r)
	})
	reg("(github.com/cosmos/cosmos-sdk/types.DecCoins).IsZero", "DecCoins.IsZero: every coin of the (possibly empty) list has a zero amount", func(c *CallCtx) []Outcome {
		ct, _ := c.x.coinTypes()
		e := c.x.enc
		s := e.Sort(ct.decCoin)
		l := c.t(0)
		f := fmt.Sprintf("(forall ((j Int)) (=> (and (<= 0 j) (< j (gseq.len %s))) (= (%s.Amount (select (gseq.arr %s) j)) 0)))", l, s, l)
		b := e.FreshConst("iszero", "Bool")
		c.st.Assume(eq(b, f))
		return c.ret(TV{T: b, Ty: tBool})
	})

	// ---- Coin / Coins --------------------------------------------------------------------------------------------
	reg("(github.com/cosmos/cosmos-sdk/types.Coins).Validate", "Coins.Validate: a pure partial check of the list (sorted, distinct valid denoms, positive amounts) (A-COIN)", func(c *CallCtx) []Outcome {
		errT := c.x.enc.FreshConst("maybeerr", "Int")
		c.st.Assume(eq(eq(errT, "0"), c.uf("coinsValid", "Bool", c.tv(0))))
		return c.ret(TV{T: errT, Ty: tError})
	})
	reg("(github.com/cosmos/cosmos-sdk/types.Coins).Sort", "Coins.Sort: the same coins in denom order; for distinct denoms the result is a valid list with the entries' amounts (A-COIN)", func(c *CallCtx) []Outcome {
		ct, _ := c.x.coinTypes()
		x := c.x
		e := x.enc
		s := e.Sort(ct.coin)
		l := c.t(0)
		r := x.freshTV("sorted", ct.coins, c.st)
		amt := x.amtFun(false)
		n := app("gseq.len", l)
		c.st.Assume(eq(app("gseq.len", r.T), n))
		den := func(t, j string) string { return app(s+".Denom", app("select", app("gseq.arr", t), j)) }
		am := func(t, j string) string { return app(s+".Amount", app("select", app("gseq.arr", t), j)) }
		distinct := fmt.Sprintf("(forall ((i Int) (j Int)) (=> (and (<= 0 i) (< i j) (< j %s)) (not (= %s %s))))", n, den(l, "i"), den(l, "j"))
		nonneg := fmt.Sprintf("(forall ((j Int)) (=> (and (<= 0 j) (< j %s)) (>= %s 0)))", n, am(l, "j"))
		facts := and(x.coinValid(r.T, false),
			fmt.Sprintf("(forall ((j Int)) (! (=> (and (<= 0 j) (< j %s)) (= (%s %s %s) %s)) :pattern ((select (gseq.arr %s) j))))", n, amt, r.T, den(l, "j"), am(l, "j"), l),
			fmt.Sprintf("(forall ((d Bytes)) (! (=> (forall ((j Int)) (=> (and (<= 0 j) (< j %s)) (not (= %s d)))) (= (%s %s d) 0)) :pattern ((%s %s d))))", n, den(l, "j"), amt, r.T, amt, r.T))
		c.st.Assume(implies(and(distinct, nonneg), facts))
		return c.ret(r)
	})
	reg("(github.com/cosmos/cosmos-sdk/types.Coins).IsAnyGTE", "Coins.IsAnyGTE(b): b is non-empty and some coin of the receiver has an amount >= b's non-zero amount of its denom (cosmos-sdk types/coin.go) (A-COIN)", func(c *CallCtx) []Outcome {
		ct, _ := c.x.coinTypes()
		x := c.x
		e := x.enc
		s := e.Sort(ct.coin)
		a, b := c.t(0), c.t(1)
		amt := x.amtFun(false)
		f := fmt.Sprintf("(and (> (gseq.len %s) 0) (exists ((j Int)) (and (<= 0 j) (< j (gseq.len %s)) (not (= (%s %s (%s.Denom (select (gseq.arr %s) j))) 0)) (>= (%s.Amount (select (gseq.arr %s) j)) (%s %s (%s.Denom (select (gseq.arr %s) j)))))))", b, a, amt, b, s, a, s, a, amt, b, s, a)
		r := e.FreshConst("anygte", "Bool")
		c.st.Assume(eq(r, f))
		return c.ret(TV{T: r, Ty: tBool})
	})
}
