package main

// Property check driver: verifies the functions listed for a property, discharges lemmas,
// applies known-finding regions, replays counterexamples, writes evidence.

import (
	"encoding/json"
	"fmt"
	"os"
	"os/exec"
	"path/filepath"
	"regexp"
	"sort"
	"strings"
	"time"

	"golang.org/x/tools/go/ssa"
)

type ssaFunction = ssa.Function

type KnownFinding struct {
	ID         string `json:"id"`
	ReplayPkg  string `json:"replay_pkg"`
	ReplayRun  string `json:"replay_run"`
	Property   string `json:"property"`
	Obligation string `json:"obligation"`
	Region     string `json:"region"`
	What       string `json:"what"`
	Replay     string `json:"replay"`
}

type KnownFile struct {
	Findings   []KnownFinding `json:"findings"`
	Fixed      []string       `json:"fixed"`
	FixedDemos []FixedDemo    `json:"fixed_demos"`
}

// FixedDemo: the stored demonstration of a repaired defect; it asserts the property, so it passes on the repaired tree.
// The thorough tier runs it on the real code: if it fails, the defect is back (a replayed violation).
type FixedDemo struct {
	ID         string   `json:"id"`
	Properties []string `json:"properties"`
	Pkg        string   `json:"pkg"`
	File       string   `json:"file"`
	Run        string   `json:"run"`
	What       string   `json:"what"`
}

func loadKnown() KnownFile {
	var kf KnownFile
	data, err := os.ReadFile(filepath.Join(verifDir, "known_findings.json"))
	if err == nil {
		json.Unmarshal(data, &kf)
	}
	return kf
}

// registerGhosts pre-registers the module state cells (collections fields of the keeper types).
func (x *Exec) registerGhosts(fn *ssa.Function) {
	x.ghostTy["bank.bal"] = ghostInfo{Arr: true, Sort: bankBalSort}
	x.ghostTy["bank.supply"] = ghostInfo{Arr: true, Sort: bankSupplySort}
	x.ghostTy["bank.meta"] = ghostInfo{Arr: true, Sort: "(Array Bytes Bool)"}
	x.ghostTy["auth.acc"] = ghostInfo{Arr: true, Sort: "(Array Bytes Bool)"}
	x.ghostTy["perm.admin"] = ghostInfo{Arr: true, Opt: true, Sort: permAdminSort, ValTy: tBytes}
	x.ghostTy["chan.nextSend"] = ghostInfo{Arr: true, Opt: true, Sort: chanSeqSort, ValTy: tUint64}
	x.registerOracleGhost()
	module := "ophost"
	pkgPath := ""
	if p := pkgOf(fn); p != nil {
		pkgPath = p.Pkg.Path()
	}
	if strings.Contains(pkgPath, "/opchild") {
		module = "opchild"
	}
	kp := x.L.SSA[repoPrefix+"/x/"+module+"/keeper"]
	if kp == nil {
		return
	}
	for _, tn := range []string{"Keeper", "HostValidatorStore"} {
		t := kp.Type(tn)
		if t == nil {
			continue
		}
		x.registerStruct(ObjV{Path: "k", Ty: t.Type()})
	}
}

func (x *Exec) registerStruct(o ObjV) {
	stt := structOfType(o.Ty)
	if stt == nil {
		return
	}
	for i := 0; i < stt.NumFields(); i++ {
		f := stt.Field(i)
		fo := ObjV{Path: o.Path + "." + f.Name(), Ty: f.Type()}
		if d, ok := x.coll(fo); ok {
			gi := d.gi
			gi.Sort = d.sort
			x.ghostTy[d.name] = gi
			continue
		}
		if m := mapOf(f.Type()); m != nil {
			x.ghostTy[f.Name()] = ghostInfo{Arr: true, Opt: true, ValTy: m.Elem(), KeyTy: m.Key(), Sort: x.enc.Sort(f.Type())}
		}
	}
}

func runCheck(prop, tier string, verbose bool) int {
	t0 := time.Now()
	cfgs, err := loadConfig()
	if err != nil {
		fmt.Fprintln(os.Stderr, "config:", err)
		return 2
	}
	cfg, ok := cfgs[prop]
	if !ok {
		fmt.Fprintf(os.Stderr, "property %s has no check registered\n", prop)
		return 2
	}
	evidencePath := filepath.Join(evidenceDir(), prop+".json")
	os.MkdirAll(filepath.Dir(evidencePath), 0o755)
	os.Remove(evidencePath)
	s, err := newSession()
	if err != nil {
		fmt.Printf("ENGINE-ERROR: cannot load /repo: %v\n", err)
		writeBroken(evidencePath, prop, tier, fmt.Sprintf("load failed: %v", err), time.Since(t0).Seconds())
		return 1
	}
	timeout := 10
	all := false
	if tier == "thorough" {
		timeout = 60
		all = true
	}
	if v := os.Getenv("GOVC_TIMEOUT_S"); v != "" {
		// debugging aid (exercises the second pass): per-query budget of the first pass
		fmt.Sscan(v, &timeout)
	}
	var reps []*FuncReport
	var missing []string
	for _, pat := range cfg.Functions {
		re, err := regexp.Compile("^" + pat + "$")
		found := false
		if err == nil {
			for _, k := range sortedKeys(s.DB.ByKey) {
				if re.MatchString(k) || k == pat {
					reps = append(reps, s.verifyFunc(prop, s.DB.ByKey[k]))
					found = true
				}
			}
		}
		if !found {
			missing = append(missing, pat)
		}
	}
	// close the set under "callee contract used": every repository contract a verified function relies on is
	// verified in the same run, unless it is marked trusted (then it is reported as an assumption)
	done := map[string]bool{}
	for _, r := range reps {
		done[r.Key] = true
	}
	var trustedRepo []string
	for i := 0; i < len(reps); i++ {
		for _, k := range reps[i].Modular {
			if done[k] {
				continue
			}
			done[k] = true
			ct := s.DB.ByKey[k]
			if ct == nil {
				continue
			}
			if ct.Opts["trusted"] {
				trustedRepo = append(trustedRepo, k)
				continue
			}
			reps = append(reps, s.verifyFunc(prop, ct))
		}
	}
	// frame guards: other writers of this property's state
	if cfg.FrameGuard != nil {
		n := 0
		for _, pat := range cfg.FrameGuard.Functions {
			re, err := regexp.Compile("^" + pat + "$")
			if err != nil {
				continue
			}
			for _, k := range sortedKeys(s.DB.ByKey) {
				if done[k] || !(re.MatchString(k) || k == pat) {
					continue
				}
				done[k] = true
				ct := s.DB.ByKey[k]
				if ct == nil || ct.Opts["trusted"] {
					continue
				}
				r := s.verifyFunc(prop, ct)
				var keep []*Obligation
				for _, o := range r.Obls {
					if o.Kind != "frame" {
						continue
					}
					for _, c := range cfg.FrameGuard.Cells {
						if strings.HasSuffix(o.Name, ".frame."+c) {
							keep = append(keep, o)
						}
					}
				}
				r.Obls = keep
				r.Key = k + " [frame guard: " + strings.Join(cfg.FrameGuard.Cells, ", ") + "]"
				if r.Unverified == "" || len(keep) > 0 {
					reps = append(reps, r)
					n++
				}
			}
		}
		cfg.Assumptions = append(cfg.Assumptions, fmt.Sprintf("frame guard: %d further functions of the module are checked only for not writing %s (their other clauses belong to the properties they are tagged with)", n, strings.Join(cfg.FrameGuard.Cells, ", ")))
	}
	sort.Strings(trustedRepo)
	for _, k := range trustedRepo {
		cfg.Assumptions = append(cfg.Assumptions, "assumed (unverified) contract of repository function "+k+" (opt trusted)")
	}
	if cfg.Discipline {
		verified := map[string]bool{}
		for _, r := range reps {
			if r.Unverified == "" {
				verified[r.Key] = true
			}
		}
		dr := runDiscipline(s, prop, verified)
		reps = append(reps, &FuncReport{Key: fmt.Sprintf("determinism discipline over %d repository functions (go/ssa scan)", dr.Functions), Obls: dr.Obls, Header: basePrelude})
		cfg.NotDecided = append(cfg.NotDecided, dr.Notes...)
	}
	if cfg.EventForwarding {
		er := runEventForwarding(s, prop)
		reps = append(reps, &FuncReport{Key: fmt.Sprintf("event forwarding discipline over %d dynamic message-handler invocations (go/ssa def-use scan)", er.Functions), Obls: er.Obls, Header: basePrelude})
	}
	dir := filepath.Join(outDir(), "smt", prop)
	os.RemoveAll(dir)
	os.MkdirAll(dir, 0o755)
	known := loadKnown()
	applyKnownRegions(s, prop, reps, known)
	SolveAll(dir, reps, timeout, all)
	lemmaDB = s.DB
	lemmas := runLemmas(dir, prop, cfg, timeout)

	res := summarize(s, prop, tier, reps, lemmas, known, missing, verbose)
	if tier == "thorough" {
		thoroughExtras(prop, known, res)
	}
	res.WallS = time.Since(t0).Seconds()
	writeEvidence(evidencePath, prop, tier, cfg, reps, lemmas, res)
	for _, l := range res.Lines {
		fmt.Println(l)
	}
	if os.Getenv("GOVC_SLOW") != "" {
		for _, r := range reps {
			for _, o := range r.Obls {
				if o.TimeS > 1.5 {
					fmt.Printf("SLOW %.1fs %s [%s] %v\n", o.TimeS, o.Name, o.Solver, o.Results)
				}
			}
		}
	}
	fmt.Printf("%s: %d obligations (%d queries), %d discharged, %d known findings, %d violations, %d engine errors, %.1fs\n",
		prop, res.Obligations, res.Queries, res.Discharged, len(res.KnownHit), res.Violations, res.EngineErrors, res.WallS)
	if res.Violations > 0 || res.EngineErrors > 0 {
		return 1
	}
	return 0
}

type Summary struct {
	Obligations  int
	Queries      int
	Discharged   int
	Violations   int
	EngineErrors int
	KnownHit     []string
	Lines        []string
	WallS        float64
	ByBackend    map[string]int
	SolverTime   float64
	Failed       []*OblGroup
	Samples      []map[string]interface{}
	Extras       map[string]interface{}
}

func writeBroken(path, prop, tier, why string, wall float64) {
	ev := map[string]interface{}{
		"property_id": prop, "tier": tier, "seed": seedFromEnv(), "level": "other", "wall_s": wall, "violations": 0,
		"coverage": map[string]interface{}{"explanation": "engine error, nothing was decided: " + why},
	}
	data, _ := json.MarshalIndent(ev, "", " ")
	os.WriteFile(path, data, 0o644)
}

func summarize(s *Session, prop, tier string, reps []*FuncReport, lemmas []*LemmaResult, known KnownFile, missing []string, verbose bool) *Summary {
	res := &Summary{ByBackend: map[string]int{}}
	for _, m := range missing {
		res.EngineErrors++
		res.Lines = append(res.Lines, fmt.Sprintf("ENGINE-ERROR: no contract matches %q (contract file or function missing)", m))
		res.Violations++
		p := writeUndecidedReplay(prop, prop+"."+sanitize(m)+".contract.present", m, "no contract matches this key: the contract file or the function is missing")
		res.Lines = append(res.Lines, fmt.Sprintf("VIOLATION property=%s replay=%s no-failing-input-found", prop, p))
	}
	for _, r := range reps {
		if r.Unverified != "" {
			res.EngineErrors++
			res.Lines = append(res.Lines, fmt.Sprintf("ENGINE-ERROR: %s is outside the verified subset: %s", r.Key, r.Unverified))
			// the obligations of this contract cannot be generated from the current source (contract names a local or
			// a function the code no longer has, loop without invariant, construct outside the subset): the verifier
			// does not accept the contract on this code. Reported as an undischarged obligation, never as a counterexample.
			res.Violations++
			name := prop + "." + shortFunc(r.Key) + ".contract.applies_to_current_source"
			p := writeUndecidedReplay(prop, name, r.Key, r.Unverified)
			res.Lines = append(res.Lines, fmt.Sprintf("VIOLATION property=%s replay=%s no-failing-input-found", prop, p))
			continue
		}
		for _, g := range groupObls(r.Obls) {
			res.Obligations++
			res.Queries += len(g.Obls)
			for _, o := range g.Obls {
				res.SolverTime += o.TimeS
				if o.Solver != "" {
					res.ByBackend[o.Solver]++
				}
			}
			if len(res.Samples) < 6 && g.Kind == "post" {
				o := g.Obls[0]
				res.Samples = append(res.Samples, map[string]interface{}{"name": g.Name, "clause": g.Clause, "result": o.Result, "solver": o.Solver, "time_s": o.TimeS, "queries": len(g.Obls)})
			}
			if g.Kind == "known" {
				// inside query of a recorded finding: informational, never a violation
				res.Obligations--
				present := false
				for _, o := range g.Obls {
					if o.Result != "unsat" {
						present = true
					}
				}
				if present {
					kf := g.Obls[0].Region
					dup := false
					for _, h := range res.KnownHit {
						dup = dup || h == kf
					}
					if !dup {
						res.KnownHit = append(res.KnownHit, kf)
						line := fmt.Sprintf("KNOWN-FINDING: property=%s %s", prop, kf)
						if tier == "thorough" {
							for _, f := range known.Findings {
								if strings.HasPrefix(kf, f.ID+" ") {
									if ok, _ := replayKnown(f); ok {
										line += " [stored demonstration still fails on the real code]"
									} else {
										line += " [stored demonstration did not reproduce]"
									}
								}
							}
						}
						res.Lines = append(res.Lines, line)
					}
				}
				continue
			}
			st := g.Status()
			switch {
			case st == "discharged":
				res.Discharged++
			case st == "solver-conflict":
				res.EngineErrors++
				res.Lines = append(res.Lines, "ENGINE-ERROR: solvers disagree on "+g.Name)
			case st == "vacuous":
				res.EngineErrors++
				res.Lines = append(res.Lines, "ENGINE-ERROR: vacuity guard failed: "+g.Name+" ("+g.Clause+")")
			default:
				// region bookkeeping: KNOWN obligations are handled separately
				if isKnownInside(g) {
					kf := g.Obls[0].Region
					res.KnownHit = append(res.KnownHit, kf)
					res.Lines = append(res.Lines, fmt.Sprintf("KNOWN-FINDING: property=%s %s", prop, kf))
					res.Discharged++ // the inside query is informational
					res.Obligations--
					res.Discharged--
					continue
				}
				res.Violations++
				res.Failed = append(res.Failed, g)
				path := writeReplay(s, prop, g)
				line := fmt.Sprintf("VIOLATION property=%s replay=%s", prop, path.Path)
				if !path.Confirmed {
					line += " no-failing-input-found"
				}
				res.Lines = append(res.Lines, line)
				if verbose {
					res.Lines = append(res.Lines, "  obligation "+g.Name+": "+g.Clause)
				}
			}
		}
	}
	for _, l := range lemmas {
		res.Obligations++
		res.Queries++
		res.SolverTime += l.TimeS
		if l.Solver != "" {
			res.ByBackend[l.Solver]++
		}
		if l.OK {
			res.Discharged++
		} else if l.Vacuous {
			res.EngineErrors++
			res.Lines = append(res.Lines, "ENGINE-ERROR: lemma file is vacuous (assumptions contradictory): "+l.Name)
		} else {
			res.Violations++
			p := writeLemmaReplay(prop, l)
			res.Lines = append(res.Lines, fmt.Sprintf("VIOLATION property=%s replay=%s no-failing-input-found", prop, p))
		}
	}
	sort.Strings(res.KnownHit)
	return res
}

func isKnownInside(g *OblGroup) bool {
	return len(g.Obls) > 0 && strings.HasPrefix(g.Obls[0].Region, "inside:") == false && g.Obls[0].Region != "" && g.Kind == "known"
}


// registerOracleGhost pre-registers the connect oracle price state (types from the dependency).
func (x *Exec) registerOracleGhost() {
	cpP := x.L.Prog.ImportedPackage("github.com/skip-mev/connect/v2/pkg/types")
	qpP := x.L.Prog.ImportedPackage("github.com/skip-mev/connect/v2/x/oracle/types")
	if cpP == nil || qpP == nil || cpP.Type("CurrencyPair") == nil || qpP.Type("QuotePrice") == nil {
		return
	}
	cpTy, qpTy := cpP.Type("CurrencyPair").Type(), qpP.Type("QuotePrice").Type()
	sort := "(Array " + x.enc.Sort(cpTy) + " (Opt " + x.enc.Sort(qpTy) + "))"
	x.ghostTy[oraclePriceGhost] = ghostInfo{Arr: true, Opt: true, ValTy: qpTy, KeyTy: cpTy, Sort: sort}
}

func shortFunc(key string) string {
	if i := strings.LastIndex(key, "."); i >= 0 {
		return key[i+1:]
	}
	return key
}

// writeUndecidedReplay: replay file for a contract whose obligations could not be generated from the current source.
func writeUndecidedReplay(prop, name, fn, why string) string {
	dir := filepath.Join(outDir(), "replay")
	os.MkdirAll(dir, 0o755)
	p := filepath.Join(dir, sanitize(name)+".json")
	data, _ := json.MarshalIndent(map[string]interface{}{
		"property": prop, "obligation": name, "function": fn, "kind": "contract-applicability",
		"solver_result": "not generated", "verifier_output": why, "confirmed_on_real_code": false,
		"note": "the contract of this function no longer applies to the source (or the source left the verified subset), so its obligations are undischarged; this is not a counterexample: the property is undecided for this function until the contract is adapted",
	}, "", " ")
	os.WriteFile(p, data, 0o644)
	return p
}

// thoroughExtras: (1) the stored demonstrations of repaired defects of this property are run on the real code
// (a failing one is a replayed violation: the defect is back); (2) the property's must-fail corpus is run against scratch
// copies of the repository HEAD (self-test of the machinery; reported in the evidence, does not decide the property).
func thoroughExtras(prop string, known KnownFile, res *Summary) {
	res.Extras = map[string]interface{}{}
	demos := []map[string]interface{}{}
	for _, d := range known.FixedDemos {
		mine := false
		for _, p := range d.Properties {
			mine = mine || p == prop
		}
		if !mine {
			continue
		}
		cmd := exec.Command("sh", filepath.Join(verifDir, "replay", "run_overlay.sh"), d.Pkg, filepath.Join(verifDir, d.File), d.Run, repoDir)
		cmd.Env = append(os.Environ(), "GOFLAGS=", "GOPROXY=off", "GOSUMDB=off", "GOTOOLCHAIN=local")
		out, err := cmd.CombinedOutput()
		failed := err != nil && strings.Contains(string(out), "--- FAIL")
		built := !strings.Contains(string(out), "[build failed]") && !strings.Contains(string(out), "[setup failed]")
		demos = append(demos, map[string]interface{}{"id": d.ID, "run": d.Run, "passes": err == nil, "built": built})
		if failed {
			dir := filepath.Join(outDir(), "replay")
			os.MkdirAll(dir, 0o755)
			p := filepath.Join(dir, sanitize(prop+".regression."+d.ID)+".json")
			data, _ := json.MarshalIndent(map[string]interface{}{"property": prop, "obligation": prop + ".regression." + d.ID, "kind": "stored demonstration of a repaired defect",
				"what": d.What, "test": d.Run, "package": d.Pkg, "confirmed_on_real_code": true, "output": trunc(string(out), 4000)}, "", " ")
			os.WriteFile(p, data, 0o644)
			res.Violations++
			res.Lines = append(res.Lines, fmt.Sprintf("VIOLATION property=%s replay=%s", prop, p))
		}
	}
	res.Extras["fixed_defect_demonstrations"] = demos
	if os.Getenv("VERIF_NO_SELFTEST") == "" {
		cmd := exec.Command("sh", filepath.Join(verifDir, "selftest", "run.sh"), "^"+prop+"_")
		cmd.Env = append(os.Environ(), "SELFTEST_LENIENT=1")
		if os.Getenv("SELFTEST_JOBS") == "" {
			cmd.Env = append(cmd.Env, "SELFTEST_JOBS=4") // four mutants at a time
		}
		out, _ := cmd.CombinedOutput()
		killed, survived, skipped := 0, 0, 0
		var surv []string
		for _, l := range strings.Split(string(out), "\n") {
			switch {
			case strings.HasPrefix(l, "killed "):
				killed++
			case strings.HasPrefix(l, "SURVIVED "):
				survived++
				surv = append(surv, strings.Fields(l)[1])
			case strings.HasPrefix(l, "skipped "):
				skipped++
			}
		}
		res.Extras["mutants"] = map[string]interface{}{"killed": killed, "survived": survived, "skipped_patch_does_not_apply": skipped, "survivors": surv,
			"note": "must-fail corpus applied to scratch copies of the repository HEAD; a survivor means the check lost strength, it does not say anything about the tree under check"}
		if survived > 0 {
			res.Lines = append(res.Lines, fmt.Sprintf("SELFTEST-WARNING: %d must-fail mutant(s) of %s were not detected: %s", survived, prop, strings.Join(surv, " ")))
		}
	}
}
