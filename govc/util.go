package main

import "go/types"

func structOfType(t types.Type) *types.Struct {
	s, _ := deref(t).Underlying().(*types.Struct)
	return s
}

func mapOf(t types.Type) *types.Map {
	m, _ := t.Underlying().(*types.Map)
	return m
}
