package main

import (
	"go/types"
	"os"
	"path/filepath"
)

func structOfType(t types.Type) *types.Struct {
	s, _ := deref(t).Underlying().(*types.Struct)
	return s
}

func mapOf(t types.Type) *types.Map {
	m, _ := t.Underlying().(*types.Map)
	return m
}

func outDir() string {
	if d := os.Getenv("VERIF_OUT_DIR"); d != "" {
		return d
	}
	return filepath.Join(verifDir, "out")
}

func evidenceDir() string {
	if d := os.Getenv("VERIF_EVIDENCE_DIR"); d != "" {
		return d
	}
	return filepath.Join(verifDir, "evidence")
}
