package main

// Verification of one function against its contract: obligations for postconditions, frames,
// loop invariants, callee preconditions and (optionally) absence of panics.

import (
	"fmt"
	"go/ast"
	"go/types"
	"sort"
	"strings"

	"golang.org/x/tools/go/ssa"
)

type FuncReport struct {
	Key        string
	Func       string
	SrcHash    string
	CtHash     string
	Paths      int
	Unverified string
	Warnings   []string
	Assumed    []string
	Modular    []string
	Inlined    []string
	Obls       []*Obligation
	Covers     []string
	Header     string
	Opts       []string // contract options that are assumptions (listed in the evidence)
}

func (x *Exec) addObl(kind, tag, clause string, st *State, goal string, props []string) {
	if goal == "true" {
		// trivially discharged syntactically: still counted
	}
	name := fmt.Sprintf("%s.%s.%s.%s", x.prop, x.topShort(), kind, tag)
	o := &Obligation{Name: name, Func: x.topKey(), Kind: kind, Clause: clause, Assume: append([]string(nil), st.pc...), Goal: goal, Props: props}
	x.obls = append(x.obls, o)
}

// addInapplicable records a contract clause that cannot be stated on the current source (it names a local the code no
// longer has): the clause is undischarged, the rest of the function is still verified without it.
func (x *Exec) addInapplicable(kind, tag, clause, why string, props []string) {
	name := fmt.Sprintf("%s.%s.%s.%s", x.prop, x.topShort(), kind, tag)
	for _, o := range x.obls {
		if o.Name == name && o.Result == "inapplicable" {
			return
		}
	}
	x.obls = append(x.obls, &Obligation{Name: name, Func: x.topKey(), Kind: kind, Clause: clause, Goal: "false", Props: props,
		Result: "inapplicable", Solver: "none", Model: "clause cannot be evaluated on the current source: " + why})
}

func (x *Exec) topShort() string {
	if x.topC != nil {
		return x.topC.Func
	}
	return x.top.Name()
}
func (x *Exec) topKey() string {
	if x.topC != nil {
		return x.topC.Key()
	}
	return x.top.String()
}

// paramValue builds the symbolic entry value of a parameter.
func (x *Exec) paramValue(st *State, name string, t types.Type) Value {
	e := x.enc
	switch {
	case isCtxType(t):
		return CtxV{H: 0}
	case namedPath(t) == "cosmossdk.io/core/address.Codec":
		c := e.DeclConst("codec."+sanitize(name), "Int")
		return TV{T: c, Ty: t}
	case isObjectType(t):
		return ObjV{Path: name, Ty: t}
	}
	if pt, ok := t.Underlying().(*types.Pointer); ok {
		if _, isStruct := pt.Elem().Underlying().(*types.Struct); isStruct && !isObjectType(pt.Elem()) {
			c := e.DeclConst("p."+sanitize(name), e.Sort(pt.Elem()))
			for _, f := range e.TypeFacts(c, pt.Elem(), 0) {
				st.Assume(f)
			}
			cell := x.newCell(st, TV{T: c, Ty: pt.Elem()}, pt.Elem())
			return PtrV{Cell: cell}
		}
	}
	if _, ok := t.Underlying().(*types.Signature); ok {
		return ObjV{Path: "fn." + name, Ty: t}
	}
	c := e.DeclConst("p."+sanitize(name), e.Sort(t))
	for _, f := range e.TypeFacts(c, t, 0) {
		st.Assume(f)
	}
	tv := TV{T: c, Ty: t}
	if e.Sort(t) == "Bytes" {
		if _, isSlice := t.Underlying().(*types.Slice); isSlice {
			capT := e.DeclConst("cap."+sanitize(name), "Int")
			st.Assume(app(">=", capT, app("blen", c)))
			tv.M = &SliceMeta{Owner: "caller", Cap: capT, Cell: -1, Root: name}
		}
	}
	if sl, ok := t.Underlying().(*types.Slice); ok && e.Sort(sl.Elem()) == "Bytes" {
		x.callerSeqs[c] = name
	}
	return tv
}

func (x *Exec) Verify(fn *ssa.Function, ct *Contract) (rep *FuncReport) {
	x.top = fn
	x.topC = ct
	x.obls = nil
	x.warnings = map[string]bool{}
	x.unverified = ""
	x.paths = 0
	x.assumed = map[string]bool{}
	x.modular = map[string]bool{}
	x.inlined = map[string]bool{}
	x.covers = map[string]bool{}
	x.topLets = map[string]SV{}
	x.nopanic = ct != nil && ct.Opts["nopanic"]
	x.localTypes = map[string]types.Type{}
	for _, b := range fn.Blocks {
		for _, in := range b.Instrs {
			if d, ok := in.(*ssa.DebugRef); ok {
				if id, ok := d.Expr.(*ast.Ident); ok && x.L.IsVarIdent(id) {
					t := d.X.Type()
					if d.IsAddr {
						t = deref(t)
					}
					x.localTypes[id.Name] = t
				}
			}
		}
	}
	rep = &FuncReport{Key: x.topKey(), Func: fn.String()}
	defer func() {
		if r := recover(); r != nil {
			x.unverified = fmt.Sprintf("engine panic: %v", r)
			rep.Unverified = x.unverified
			if debugPanics {
				panic(r)
			}
		}
	}()
	st := &State{cells: map[int]Value{}, cellTy: map[int]types.Type{}, stores: map[int]*Store{}}
	x.store(st, 0)
	var args []Value
	names := map[string]Value{}
	for _, p := range fn.Params {
		v := x.paramValue(st, p.Name(), p.Type())
		args = append(args, v)
		names[p.Name()] = v
	}
	var free []Value
	for _, fv := range fn.FreeVars {
		// captured variables are addresses of the enclosing function's locals
		v := x.paramValue(st, fv.Name(), deref(fv.Type()))
		switch pv := v.(type) {
		case ObjV:
			free = append(free, ObjV{Path: pv.Path, Ty: fv.Type()})
		case PtrV:
			c := x.newCell(st, pv, deref(fv.Type()))
			free = append(free, PtrV{Cell: c})
		default:
			c := x.newCell(st, v, deref(fv.Type()))
			free = append(free, PtrV{Cell: c})
		}
		names[fv.Name()] = free[len(free)-1]
	}
	x.entryNames = names
	x.entry = st.Clone()
	env := &cenv{x: x, st: st, old: x.entry, names: names, oldNames: names, pkg: pkgOf(fn)}
	if ct != nil {
		for _, cl := range ct.Of("let") {
			sv, err := EvalSpec(cl.node, env, x.sigs, x.topLets)
			if err != nil {
				x.fail("let %s: %v", cl.Name, err)
				break
			}
			x.topLets[cl.Name] = sv
		}
		for _, kind := range []string{"requires", "assumes"} {
			for _, cl := range ct.Of(kind) {
				sv, err := EvalSpec(cl.node, env, x.sigs, x.topLets)
				if err != nil {
					x.fail("%s %s: %v", kind, cl.Tag, err)
					break
				}
				st.Assume(sv.T)
				if kind == "assumes" {
					x.assumed["assumption of "+ct.Func+": "+cl.Text] = true
				}
			}
		}
		x.prepareRegions(env)
		// vacuity: the precondition must be satisfiable
		x.obls = append(x.obls, &Obligation{Name: fmt.Sprintf("%s.%s.vacuity.requires_sat", x.prop, x.topShort()), Func: x.topKey(), Kind: "vacuity", Clause: "requires clauses are satisfiable (must be sat)", Assume: append([]string(nil), st.pc...), Goal: "false"})
	}
	x.entry = st.Clone()
	var outs []Outcome
	if x.unverified == "" {
		outs = x.execFunc(st, fn, args, free, 0, true)
	}
	if x.unverified == "" && ct != nil {
		x.checkPosts(fn, ct, outs)
	}
	x.splitRegions()
	rep.Paths = x.paths
	rep.Unverified = x.unverified
	rep.Obls = x.obls
	rep.Warnings = sortedKeys(x.warnings)
	rep.Assumed = sortedKeys(x.assumed)
	rep.Modular = sortedKeys(x.modular)
	rep.Inlined = sortedKeys(x.inlined)
	rep.Covers = sortedKeys(x.covers)
	if ct != nil {
		rep.CtHash = ct.Hash()
	}
	return rep
}

func (x *Exec) resultNames(fn *ssa.Function, vals []Value) map[string]Value {
	results := map[string]Value{}
	sig := fn.Signature
	for i := 0; i < sig.Results().Len() && i < len(vals); i++ {
		rv := sig.Results().At(i)
		if rv.Name() != "" && rv.Name() != "_" {
			results[rv.Name()] = vals[i]
		}
		results[fmt.Sprintf("ret%d", i)] = vals[i]
		if isErrorType(rv.Type()) && i == sig.Results().Len()-1 {
			results["err"] = vals[i]
		}
	}
	if len(vals) > 0 {
		results["r"] = vals[0]
	}
	return results
}

func (x *Exec) checkPosts(fn *ssa.Function, ct *Contract, outs []Outcome) {
	nOK := 0
	for pi, o := range outs {
		if o.panic {
			x.covers["panic_path"] = true
			if x.nopanic {
				x.addOblAt(o.st, "safe", "no_panic", "the function never panics", "false", nil, pi)
			}
			continue
		}
		nOK++
		results := x.resultNames(fn, o.vals)
		env := &cenv{x: x, st: o.st, old: x.entry, names: o.names, oldNames: x.entryNames, results: results, pkg: pkgOf(fn)}
		// success guard for frames and emits
		okGuard := "true"
		if ev, has := results["err"]; has {
			okGuard = eq(term(ev), "0")
		}
		for _, cl := range ct.Of("ensures") {
			sv, err := EvalSpec(cl.node, env, x.sigs, x.topLets)
			if err != nil {
				x.fail("ensures %s: %v", cl.Tag, err)
				return
			}
			x.addOblAt(o.st, "post", cl.Tag, cl.Text, sv.T, cl.Props, pi)
		}
		for _, cl := range ct.Of("emits") {
			guard, evs, err := x.evalEmits(cl, env, x.topLets)
			if err != nil {
				x.fail("emits: %v", err)
				return
			}
			g := and(okGuard, guard)
			x.addOblAt(o.st, "post", "events_"+cl.Tag, cl.Text, implies(g, x.eventsEqual(o.st, evs, false)), cl.Props, pi)
		}
		for _, cl := range ct.Of("emits_filtered") {
			guard, evs, err := x.evalEmits(cl, env, x.topLets)
			if err != nil {
				x.fail("emits_filtered: %v", err)
				return
			}
			g := and(okGuard, guard)
			x.addOblAt(o.st, "post", "events_"+cl.Tag, cl.Text, implies(g, x.eventsEqual(o.st, evs, true)), cl.Props, pi)
		}
		if len(ct.Of("assigns")) > 0 {
			x.checkFrame(ct, env, o, okGuard, pi)
		}
	}
	if nOK > 0 {
		x.covers["normal_return"] = true
	}
	// cover obligations: at least one successful path must be reachable (vacuity guard)
	if !ct.Opts["nocover"] {
		var disj []string
		for _, o := range outs {
			if o.panic {
				continue
			}
			results := x.resultNames(fn, o.vals)
			g := "true"
			if ev, has := results["err"]; has {
				g = eq(term(ev), "0")
			}
			disj = append(disj, and(append(append([]string(nil), o.st.pc...), g)...))
		}
		x.obls = append(x.obls, &Obligation{Name: fmt.Sprintf("%s.%s.vacuity.success_reachable", x.prop, x.topShort()), Func: x.topKey(), Kind: "vacuity", Clause: "some successful execution exists (must be sat)", Assume: []string{or(disj...)}, Goal: "false"})
	}
}

func (x *Exec) addOblAt(st *State, kind, tag, clause, goal string, props []string, path int) {
	name := fmt.Sprintf("%s.%s.%s.%s", x.prop, x.topShort(), kind, tag)
	o := &Obligation{Name: name, Func: x.topKey(), Kind: kind, Clause: clause, Assume: append([]string(nil), st.pc...), Goal: goal, Props: props}
	x.obls = append(x.obls, o)
}

// eventsEqual: the events emitted on the root handle equal the expected list.
func (x *Exec) eventsEqual(st *State, want []Event, filtered bool) string {
	s := x.store(st, 0)
	if s.EvOpaque {
		return "false"
	}
	got := s.Events
	if filtered {
		// compare only the emitted events whose type is mentioned in the expectation
		types := map[string]bool{}
		var w2 []Event
		for _, w := range want {
			types[w.Ty] = true
			if !w.None {
				w2 = append(w2, w)
			}
		}
		want = w2
		got = nil
		for _, ev := range s.Events {
			if types[ev.Ty] {
				got = append(got, ev)
			}
		}
	}
	if len(got) != len(want) {
		return "false"
	}
	var cs []string
	for i, ev := range got {
		w := want[i]
		if len(ev.KV) != len(w.KV) {
			return "false"
		}
		cs = append(cs, eq(ev.Ty, w.Ty))
		for j := range ev.KV {
			cs = append(cs, eq(ev.KV[j][0], w.KV[j][0]))
			if w.KV[j][1] != "" {
				cs = append(cs, eq(ev.KV[j][1], w.KV[j][1]))
			}
		}
	}
	return and(cs...)
}

// checkFrame: every ghost cell not listed in assigns is unchanged; listed arrays change only at listed keys.
func (x *Exec) checkFrame(ct *Contract, env *cenv, o Outcome, okGuard string, pi int) {
	type target struct {
		all  bool
		keys []*Node
	}
	targets := map[string]*target{}
	eventsAllowed := false
	for _, cl := range ct.Of("assigns") {
		for _, n := range cl.nodes {
			name := dottedName(n)
			var key *Node
			if n.Kind == "index" {
				name = dottedName(n.Args[0])
				key = n.Args[1]
			}
			if name == "events" {
				eventsAllowed = true
				continue
			}
			t := targets[name]
			if t == nil {
				t = &target{}
				targets[name] = t
			}
			if key == nil {
				t.all = true
			} else {
				t.keys = append(t.keys, key)
			}
		}
	}
	if targets["\\everything"] != nil {
		return
	}
	guard := okGuard
	if ct.Opts["frame_all"] {
		guard = "true"
	}
	root := x.store(o.st, 0)
	var names []string
	for n := range root.G {
		names = append(names, n)
	}
	sort.Strings(names)
	for _, n := range names {
		gi := x.ghostTy[n]
		final := root.G[n]
		initial := x.ghostInit(n, gi.Sort)
		if final == initial {
			continue
		}
		t := targets[n]
		if t != nil && t.all {
			continue
		}
		if t == nil {
			x.addOblAt(o.st, "frame", n, "assigns: "+n+" is not assignable and must be unchanged", implies(guard, eq(final, initial)), []string{}, pi)
			continue
		}
		if !gi.Arr {
			continue
		}
		// array with listed keys: any other key is unchanged (skolemised)
		var ks string
		if gi.KeyTy == nil {
			parts := splitTop(gi.Sort[1 : len(gi.Sort)-1])
			ks = parts[1]
		} else {
			ks = x.enc.Sort(gi.KeyTy)
		}
		k := x.enc.FreshConst("framekey", ks)
		var diff []string
		for _, kn := range t.keys {
			if kn.Kind == "tuple" && len(kn.Args) == 2 && kn.Args[1].Kind == "ident" && kn.Args[1].Name == "$any" {
				pv, err := EvalSpec(kn.Args[0], env.pre(), x.sigs, x.topLets)
				if err != nil {
					x.fail("assigns key: %v", err)
					return
				}
				diff = append(diff, not(eq(app("fst", k), pv.T)))
				continue
			}
			if kn.Kind == "ident" && kn.Name == "$any" {
				diff = append(diff, "false")
				continue
			}
			kv, err := EvalSpec(kn, env.pre(), x.sigs, x.topLets)
			if err != nil {
				x.fail("assigns key: %v", err)
				return
			}
			diff = append(diff, not(eq(k, kv.T)))
		}
		goal := implies(and(guard, and(diff...)), eq(app("select", final, k), app("select", initial, k)))
		x.addOblAt(o.st, "frame", n, "assigns: "+n+" changes only at the listed keys", goal, []string{}, pi)
	}
	if root.Havocked {
		for _, n := range sortedKeys(x.ghostTy) {
			if _, ok := root.G[n]; ok {
				continue
			}
			if t := targets[n]; t != nil && t.all {
				continue
			}
			if targets["\\everything"] != nil {
				continue
			}
			x.addOblAt(o.st, "frame", n, "assigns: "+n+" may have been modified by an unconstrained callee", implies(guard, "false"), nil, pi)
		}
	}
	if !eventsAllowed && (len(root.Events) > 0 || root.EvOpaque) {
		x.addOblAt(o.st, "frame", "events", "assigns: no event may be emitted", implies(guard, "false"), nil, pi)
	}
	// pointer parameters (messages) are never modified unless listed as *name
	for pname, pv := range x.entryNames {
		p, ok := pv.(PtrV)
		if !ok {
			continue
		}
		if t := targets["*"+pname]; t != nil {
			continue
		}
		if strings.Contains(assignsText(ct), "*"+pname) {
			continue
		}
		cur, ok1 := o.st.cells[p.Cell].(TV)
		old, ok2 := x.entry.cells[p.Cell].(TV)
		if ok1 && ok2 && cur.T != old.T {
			x.addOblAt(o.st, "frame", "param_"+pname, "the message *"+pname+" is not modified", eq(cur.T, old.T), nil, pi)
		}
	}
}

func assignsText(ct *Contract) string {
	var b strings.Builder
	for _, cl := range ct.Of("assigns") {
		b.WriteString(cl.Text)
		b.WriteString(" ")
	}
	return b.String()
}

// walkContract: hook for invariant-based treatment of Map.Walk (see walk.go).
func (x *Exec) walkContract(c *CallCtx, d collDesc, h int, fn *ssa.Function, free []Value) []Outcome {
	return x.walkWithInvariant(c, d, h, fn, free)
}

func pkgOf(fn *ssa.Function) *ssa.Package {
	for fn != nil {
		if fn.Pkg != nil {
			return fn.Pkg
		}
		fn = fn.Parent()
	}
	return nil
}
