package main

// Assumed contracts for the oracle path (C15): connect codecs and aggregator (A-CODEC, A-MEDIAN),
// signature verification (A-SIG), protobuf encoding (A-PROTO), the connect oracle keeper.

import (
	"fmt"
	"go/types"
	"strings"

	"golang.org/x/tools/go/ssa"
)

// pureUF registers an intrinsic that maps the call to a named uninterpreted function of its data arguments
// (receiver included); results other than the last error are f_i(args), the error is nil iff ok(args).
func pureUF(key, name, doc string, mayFail bool) {
	reg(key, doc, func(c *CallCtx) []Outcome {
		e := c.x.enc
		var argT, argS []string
		for _, a := range c.args {
			switch v := a.(type) {
			case TV:
				if v.Ty != nil {
					argT = append(argT, v.T)
					argS = append(argS, e.Sort(v.Ty))
				}
			case IfaceV, SliceRef, MapRef, ByteView:
				tv := c.x.asTV(c.st, v)
				if tv.Ty != nil {
					argT = append(argT, tv.T)
					argS = append(argS, e.Sort(tv.Ty))
				}
			case PtrV:
				cur := c.x.load(c.st, v, nil)
				if tv, ok := cur.(TV); ok && tv.Ty != nil {
					argT = append(argT, tv.T)
					argS = append(argS, e.Sort(tv.Ty))
				}
			}
		}
		sig := c.cc.Signature()
		var vals []Value
		n := sig.Results().Len()
		for i := 0; i < n; i++ {
			rt := sig.Results().At(i).Type()
			if isErrorType(rt) && i == n-1 && mayFail {
				okf := e.DeclFun(name+".ok", argS, "Bool")
				errT := e.FreshConst("maybeerr", "Int")
				c.st.Assume(eq(eq(errT, "0"), app(okf, argT...)))
				vals = append(vals, TV{T: errT, Ty: rt})
				continue
			}
			fn := name
			if i > 0 {
				fn = fmt.Sprintf("%s.%d", name, i)
			}
			e.DeclFun(fn, argS, e.Sort(rt))
			t := app(fn, argT...)
			for _, f := range e.TypeFacts(t, rt, 0) {
				c.st.Assume(f)
			}
			vals = append(vals, TV{T: t, Ty: rt})
		}
		return c.ret(vals...)
	})
}

const oraclePriceGhost = "oracle.price"

func (x *Exec) oracleGhost(st *State, h int, cpTy, qpTy types.Type) (string, ghostInfo) {
	sort := fmt.Sprintf("(Array %s (Opt %s))", x.enc.Sort(cpTy), x.enc.Sort(qpTy))
	gi := ghostInfo{Arr: true, Opt: true, ValTy: qpTy, KeyTy: cpTy, Sort: sort}
	return x.ghostGet(st, h, oraclePriceGhost, sort, gi), gi
}

func init() {
	pureUF("github.com/skip-mev/connect/v2/abci/strategies/codec.ExtendedCommitCodec.Decode", "decodeExtCommit", "ExtendedCommitCodec.Decode is a pure partial function of the bytes (A-CODEC)", true)
	pureUF("github.com/skip-mev/connect/v2/abci/strategies/codec.VoteExtensionCodec.Decode", "decodeVE", "VoteExtensionCodec.Decode is a pure partial function of the bytes (A-CODEC)", true)
	pureUF("github.com/skip-mev/connect/v2/abci/strategies/aggregator.VoteAggregator.AggregateOracleVotes", "aggregateVotes", "VoteAggregator.AggregateOracleVotes: the stake-weighted median of connect; a pair is in the result only if distinct stored validators holding >= 0.667 of the bonded tokens submitted a price for it (A-MEDIAN, assumed)", true)
	pureUF("github.com/skip-mev/connect/v2/pkg/types.CurrencyPairFromString", "cpFromString", "CurrencyPairFromString is a pure partial function of the string", true)
	pureUF("github.com/cometbft/cometbft/crypto/encoding.PubKeyFromProto", "pubKeyFromProto", "PubKeyFromProto is a pure partial function of the proto key", true)
	pureUF("github.com/cometbft/cometbft/crypto.PubKey.VerifySignature", "sigOK", "PubKey.VerifySignature(msg,sig) is true only for a signature made over msg with the matching private key (A-SIG)", false)
	pureUF("(github.com/cosmos/cosmos-sdk/x/staking/types.Validator).GetBondedTokens", "bondedTokens", "Validator.GetBondedTokens is a pure function of the validator record", false)
	pureUF("(github.com/cosmos/cosmos-sdk/x/staking/types.Validator).BondedTokens", "bondedTokens", "Validator.BondedTokens is a pure function of the validator record", false)
	pureUF("(github.com/cosmos/cosmos-sdk/x/staking/types.Validator).CmtConsPublicKey", "cmtConsPublicKey", "Validator.CmtConsPublicKey is a pure partial function of the validator record", true)
	pureUF("(github.com/cosmos/cosmos-sdk/x/staking/types.Validator).GetConsAddr", "stakingConsAddr", "staking Validator.GetConsAddr is a pure partial function of the validator record", true)
	pureUF("github.com/cosmos/cosmos-sdk/crypto/codec.FromCmtProtoPublicKey", "fromCmtProtoPublicKey", "FromCmtProtoPublicKey is a pure partial function of the proto key", true)
	pureUF("github.com/cosmos/cosmos-sdk/x/staking/types.NewValidator", "stakingNewValidator", "staking NewValidator is a pure partial function of its arguments", true)
	pureUF("github.com/cosmos/cosmos-sdk/types.TokensFromConsensusPower", "tokensFromPower", "TokensFromConsensusPower is a pure function", false)
	pureUF("(*github.com/cometbft/cometbft/proto/tendermint/types.ValidatorSet).GetValidators", "valsetValidators", "ValidatorSet.GetValidators returns the validators field", false)
	reg("github.com/initia-labs/OPinit/x/opchild/l2connect.ValidateVoteExtensions$1", "marshalDelimitedFn applied to a CanonicalVoteExtension: the length-delimited protobuf encoding is a pure (injective) function canonVEBytes(chain id, height, round, extension) of the message fields (A-PROTO)", func(c *CallCtx) []Outcome {
		e := c.x.enc
		m := c.args[len(c.args)-1]
		if iv, ok := m.(IfaceV); ok {
			m = iv.V
		}
		cur := c.x.load(c.st, m, nil)
		get := func(f string) string {
			v, ok := c.x.fieldByName(c.st, cur, f)
			if !ok {
				c.x.fail("marshalDelimitedFn on a message without field %s", f)
				return "0"
			}
			return term(v)
		}
		e.DeclFun("canonVEBytes", []string{"Bytes", "Int", "Int", "Bytes"}, "Bytes")
		e.DeclFun("canonVEBytes.ok", []string{"Bytes", "Int", "Int", "Bytes"}, "Bool")
		args := []string{get("ChainId"), get("Height"), get("Round"), get("Extension")}
		errT := e.FreshConst("maybeerr", "Int")
		c.st.Assume(eq(eq(errT, "0"), app("canonVEBytes.ok", args...)))
		return c.ret(TV{T: app("canonVEBytes", args...), Ty: tBytes}, TV{T: errT, Ty: tError})
	})
	reg("(cosmossdk.io/math.Int).Int64", "Int.Int64 returns the value; it panics unless it fits int64", func(c *CallCtx) []Outcome {
		c.x.panicUnless(c, and(app(">=", c.t(0), "(- "+two63+")"), app("<", c.t(0), two63)), "Int.Int64")
		return c.ret(TV{T: c.t(0), Ty: tInt64})
	})
	reg("(*math/big.Int).Int64", "big.Int.Int64 returns the low 64 bits (the value if it fits)", func(c *CallCtx) []Outcome {
		v := c.x.asTV(c.st, c.args[0])
		t := v.T
		if strings.HasPrefix(c.x.enc.Sort(v.Ty), "(Opt") {
			t = app("val", t)
		}
		return c.ret(TV{T: c.x.wrap(t, tInt64), Ty: tInt64})
	})
	reg("cosmossdk.io/math.NewIntFromBigInt", "NewIntFromBigInt(x) = x", func(c *CallCtx) []Outcome {
		v := c.x.asTV(c.st, c.args[0])
		t := v.T
		if strings.HasPrefix(c.x.enc.Sort(v.Ty), "(Opt") {
			t = app("val", t)
		}
		return c.ret(TV{T: t, Ty: c.resultType(0)})
	})

	// ----- connect oracle keeper ---------------------------------------------------------------------
	pureUF("OracleKeeper.GetAllCurrencyPairs", "oracleCurrencyPairs", "OracleKeeper.GetAllCurrencyPairs: the registered pairs (a fixed list during the call)", false)
	reg("OracleKeeper.GetPriceForCurrencyPair", "OracleKeeper.GetPriceForCurrencyPair returns the stored quote price or an error if none is stored", func(c *CallCtx) []Outcome {
		sig := c.cc.Signature()
		cp := c.tv(2)
		arr, _ := c.x.oracleGhost(c.st, handleOf(c.args[1]), cp.Ty, sig.Results().At(0).Type())
		sel := app("select", arr, cp.T)
		some := isSomeT(sel, "(Opt "+c.x.enc.Sort(sig.Results().At(0).Type())+")")
		errT := c.x.enc.FreshConst("maybeerr", "Int")
		c.st.Assume(eq(eq(errT, "0"), some))
		return c.ret(TV{T: app("val", sel), Ty: sig.Results().At(0).Type()}, TV{T: errT, Ty: tError})
	})
	reg("OracleKeeper.SetPriceForCurrencyPair", "OracleKeeper.SetPriceForCurrencyPair stores the quote price for exactly that pair, or fails without effect", func(c *CallCtx) []Outcome {
		h := handleOf(c.args[1])
		cp, qp := c.tv(2), c.tv(3)
		return c.forkFail(func(st *State) []Value {
			arr, _ := c.x.oracleGhost(st, h, cp.Ty, qp.Ty)
			c.x.ghostSet(st, h, oraclePriceGhost, app("store", arr, cp.T, app("Some", qp.T)))
			return []Value{nilErr()}
		}, func(st *State, err TV) []Value { return []Value{err} })
	})
}

// ifaceToRepo: calls through these interfaces are resolved to the contract of the repository implementation.
var ifaceToRepo = map[string]string{
	"ValidatorStore": repoPrefix + "/x/opchild/keeper.(HostValidatorStore).",
}

func (x *Exec) repoImplContract(iface, method string) (*Contract, *ssa.Function) {
	pre, ok := ifaceToRepo[iface]
	if !ok {
		return nil, nil
	}
	ct := x.db.ByKey[pre+method]
	if ct == nil {
		return nil, nil
	}
	return ct, x.L.FindFunc(ct)
}
