package main

import (
	"crypto/sha256"
	"fmt"
	"go/token"
	gotypes "go/types"
	"os"
	"path/filepath"
	"strings"

	"golang.org/x/tools/go/packages"
	"golang.org/x/tools/go/ssa"
	"golang.org/x/tools/go/ssa/ssautil"
)

type Loaded struct {
	Prog    *ssa.Program
	Fset    *token.FileSet
	Pkgs    []*packages.Package
	SSA     map[string]*ssa.Package
	PkgDirs map[string]string
}

var repoDir = "/repo"

func Load(patterns ...string) (*Loaded, error) {
	cfg := &packages.Config{
		Mode:       packages.LoadSyntax | packages.NeedModule,
		Dir:        repoDir,
		BuildFlags: []string{"-tags=verif"},
		Env:        append(os.Environ(), "GOFLAGS=", "GOPROXY=off", "GOSUMDB=off", "GOTOOLCHAIN=local", "GOWORK="),
	}
	pkgs, err := packages.Load(cfg, patterns...)
	if err != nil {
		return nil, err
	}
	var errs []string
	packages.Visit(pkgs, nil, func(p *packages.Package) {
		for _, e := range p.Errors {
			errs = append(errs, e.Error())
		}
	})
	if len(errs) > 0 {
		return nil, fmt.Errorf("package errors: %s", strings.Join(errs, "; "))
	}
	prog, spkgs := ssautil.Packages(pkgs, ssa.GlobalDebug|ssa.InstantiateGenerics)
	prog.Build()
	l := &Loaded{Prog: prog, Fset: prog.Fset, Pkgs: pkgs, SSA: map[string]*ssa.Package{}, PkgDirs: map[string]string{}}
	for i, p := range pkgs {
		if spkgs[i] != nil {
			l.SSA[p.PkgPath] = spkgs[i]
		}
		if len(p.GoFiles) > 0 {
			l.PkgDirs[p.PkgPath] = filepath.Dir(p.GoFiles[0])
		}
	}
	return l, nil
}

// FindFunc resolves a contract key "pkg.(Recv).Name" or "pkg.Name".
func (l *Loaded) FindFunc(ct *Contract) *ssa.Function {
	p := l.SSA[ct.Pkg]
	if p == nil {
		return nil
	}
	if ct.Recv == "" {
		return p.Func(ct.Func)
	}
	t := p.Type(ct.Recv)
	if t == nil {
		return nil
	}
	for _, ty := range []interface{}{0, 1} {
		var ms = l.Prog.MethodSets.MethodSet(t.Type())
		if ty == 1 {
			ms = l.Prog.MethodSets.MethodSet(ptrTo(t.Type()))
		}
		for i := 0; i < ms.Len(); i++ {
			if ms.At(i).Obj().Name() == ct.Func {
				fn := l.Prog.MethodValue(ms.At(i))
				// unwrap synthetic pointer-receiver wrappers to the declared method
				if fn != nil && fn.Synthetic != "" {
					if decl := l.Prog.FuncValue(ms.At(i).Obj().(*typesFunc)); decl != nil {
						return decl
					}
				}
				return fn
			}
		}
	}
	return nil
}

// SourceHash hashes the source text of a function declaration.
func (l *Loaded) SourceHash(fn *ssa.Function) string {
	if fn.Syntax() == nil {
		return ""
	}
	s, e := l.Fset.Position(fn.Syntax().Pos()), l.Fset.Position(fn.Syntax().End())
	data, err := os.ReadFile(s.Filename)
	if err != nil || e.Offset > len(data) {
		return ""
	}
	h := sha256.Sum256(data[s.Offset:e.Offset])
	return fmt.Sprintf("%x", h[:])
}

type typesFunc = gotypes.Func

func ptrTo(t gotypes.Type) gotypes.Type { return gotypes.NewPointer(t) }
