package main

import (
	"crypto/sha256"
	"fmt"
	"go/ast"
	"go/token"
	gotypes "go/types"
	"os"
	"path/filepath"
	"strings"

	"golang.org/x/tools/go/packages"
	"golang.org/x/tools/go/ssa"
	"golang.org/x/tools/go/ssa/ssautil"
)

type Loaded struct {
	Prog    *ssa.Program
	Fset    *token.FileSet
	Pkgs    []*packages.Package
	SSA     map[string]*ssa.Package
	PkgDirs map[string]string
	infos   []*gotypes.Info
}

// IsVarIdent: the identifier denotes a local variable / parameter / named result (not a field).
func (l *Loaded) IsVarIdent(id *ast.Ident) bool {
	for _, info := range l.infos {
		if o, ok := info.Uses[id]; ok {
			v, isVar := o.(*gotypes.Var)
			return isVar && !v.IsField()
		}
		if o, ok := info.Defs[id]; ok {
			v, isVar := o.(*gotypes.Var)
			return isVar && !v.IsField()
		}
	}
	return false
}

// VarObj: the variable object an identifier denotes (nil for non-variables).
func (l *Loaded) VarObj(id *ast.Ident) gotypes.Object {
	for _, info := range l.infos {
		if o, ok := info.Uses[id]; ok {
			return o
		}
		if o, ok := info.Defs[id]; ok {
			return o
		}
	}
	return nil
}

var repoDir = "/repo"

func Load(patterns ...string) (*Loaded, error) {
	cfg := &packages.Config{
		Mode:       packages.LoadSyntax | packages.NeedModule,
		Dir:        repoDir,
		BuildFlags: []string{"-tags=verif"},
		Env:        append(os.Environ(), "GOFLAGS=", "GOPROXY=off", "GOSUMDB=off", "GOTOOLCHAIN=local", "GOWORK="),
	}
	pkgs, err := packages.Load(cfg, patterns...)
	if err != nil {
		return nil, err
	}
	var errs []string
	packages.Visit(pkgs, nil, func(p *packages.Package) {
		for _, e := range p.Errors {
			errs = append(errs, e.Error())
		}
	})
	if len(errs) > 0 {
		return nil, fmt.Errorf("package errors: %s", strings.Join(errs, "; "))
	}
	prog, spkgs := ssautil.Packages(pkgs, ssa.GlobalDebug|ssa.InstantiateGenerics)
	prog.Build()
	l := &Loaded{Prog: prog, Fset: prog.Fset, Pkgs: pkgs, SSA: map[string]*ssa.Package{}, PkgDirs: map[string]string{}}
	for i, p := range pkgs {
		if spkgs[i] != nil {
			l.SSA[p.PkgPath] = spkgs[i]
		}
		if len(p.GoFiles) > 0 {
			l.PkgDirs[p.PkgPath] = filepath.Dir(p.GoFiles[0])
		}
		if p.TypesInfo != nil {
			l.infos = append(l.infos, p.TypesInfo)
		}
	}
	return l, nil
}

// FindFunc resolves a contract key "pkg.(Recv).Name" or "pkg.Name".
func (l *Loaded) FindFunc(ct *Contract) *ssa.Function {
	p := l.SSA[ct.Pkg]
	if p == nil {
		return nil
	}
	name, anon := ct.Func, ""
	if i := strings.Index(name, "$"); i >= 0 {
		name, anon = name[:i], name[i+1:]
	}
	pick := func(fn *ssa.Function) *ssa.Function {
		if fn == nil || anon == "" {
			return fn
		}
		var k int
		fmt.Sscan(anon, &k)
		if k >= 1 && k <= len(fn.AnonFuncs) {
			return fn.AnonFuncs[k-1]
		}
		return nil
	}
	if ct.Recv == "" {
		return pick(p.Func(name))
	}
	t := p.Type(ct.Recv)
	if t == nil {
		return nil
	}
	for _, ty := range []gotypes.Type{t.Type(), gotypes.NewPointer(t.Type())} {
		ms := gotypes.NewMethodSet(ty)
		for i := 0; i < ms.Len(); i++ {
			if f, ok := ms.At(i).Obj().(*gotypes.Func); ok && f.Name() == name && len(ms.At(i).Index()) == 1 {
				if fn := l.Prog.FuncValue(f); fn != nil {
					return pick(fn)
				}
			}
		}
	}
	return nil
}

// SourceHash hashes the source text of a function declaration.
func (l *Loaded) SourceHash(fn *ssa.Function) string {
	if fn.Syntax() == nil {
		return ""
	}
	s, e := l.Fset.Position(fn.Syntax().Pos()), l.Fset.Position(fn.Syntax().End())
	data, err := os.ReadFile(s.Filename)
	if err != nil || e.Offset > len(data) {
		return ""
	}
	h := sha256.Sum256(data[s.Offset:e.Offset])
	return fmt.Sprintf("%x", h[:])
}
