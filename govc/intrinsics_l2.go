package main

// Assumed contracts used by the L2 (opchild) deposit path: gas meters, tx decoding, ante decorators,
// message routing (A-ANTE, A-ROUTER), with demonic failure / panic outcomes.

import (
	"fmt"
	"go/types"
)

// GasV is a gas meter object.
type GasV struct {
	ID     int
	Limit  string // "" = the outer (transaction) meter
	Origin bool
}

func (x *Exec) demonic() bool { return x.topC != nil && x.topC.Opts["demonic"] }

// maybePanic forks a panicking outcome when demonic outcomes are requested.
func (c *CallCtx) maybePanic(outs []Outcome, what string) []Outcome {
	if !c.x.demonic() {
		return outs
	}
	p := c.st.Clone()
	p.trace = append(p.trace, "demonic panic in "+what)
	return append(outs, Outcome{st: p, panic: true})
}

// hookWrites: what a routed hook message may modify in the handle it is given (A-ROUTER).
var hookWrites = []string{"bank.bal", "bank.supply", "bank.meta", "auth.acc", "NextL2Sequence"}

func init() {
	reg("(github.com/cosmos/cosmos-sdk/types.Context).GasMeter", "Context.GasMeter is the gas meter of the context", func(c *CallCtx) []Outcome {
		cv, _ := c.args[0].(CtxV)
		if cv.Gas == 0 {
			return c.ret(GasV{ID: 0, Origin: true})
		}
		return c.ret(c.x.gasMeters[cv.Gas])
	})
	reg("cosmossdk.io/store/types.NewGasMeter", "NewGasMeter(limit) is a fresh meter with that limit and zero consumption", func(c *CallCtx) []Outcome {
		c.x.nextGas++
		g := GasV{ID: c.x.nextGas, Limit: c.t(0)}
		c.x.gasMeters[g.ID] = g
		return c.ret(g)
	})
	reg("(github.com/cosmos/cosmos-sdk/types.Context).WithGasMeter", "WithGasMeter keeps the store handle and replaces the meter", func(c *CallCtx) []Outcome {
		cv := c.args[0].(CtxV)
		g := c.args[1]
		if iv, ok := g.(IfaceV); ok {
			g = iv.V
		}
		gv, ok := g.(GasV)
		if !ok {
			c.x.fail("WithGasMeter with %s", describe(g))
			return nil
		}
		return c.ret(CtxV{H: cv.H, Gas: gv.ID})
	})
	reg("(github.com/cosmos/cosmos-sdk/types.Context).WithBlockHeight", "WithBlockHeight keeps the store handle", func(c *CallCtx) []Outcome {
		return c.ret(c.args[0])
	})
	reg("cosmossdk.io/store/types.GasMeter.GasRemaining", "GasMeter.GasRemaining is limit - consumed (>= 0)", func(c *CallCtx) []Outcome {
		e := c.x.enc
		g := unwrapGas(c.args[0])
		r := e.DeclConst(fmt.Sprintf("gas.remaining.%d", g.ID), "Int")
		c.st.Assume(and(app(">=", r, "0"), app("<", r, two64)))
		return c.ret(TV{T: r, Ty: tUint64})
	})
	reg("cosmossdk.io/store/types.GasMeter.GasConsumedToLimit", "GasConsumedToLimit() <= limit of that meter", func(c *CallCtx) []Outcome {
		e := c.x.enc
		g := unwrapGas(c.args[0])
		r := e.FreshConst(fmt.Sprintf("gas.consumed.%d", g.ID), "Int")
		c.st.Assume(app(">=", r, "0"))
		if g.Limit != "" {
			c.st.Assume(app("<=", r, g.Limit))
		}
		return c.ret(TV{T: r, Ty: tUint64})
	})
	reg("cosmossdk.io/store/types.GasMeter.ConsumeGas", "ConsumeGas(amount) adds to the consumption; it panics (out of gas) iff the consumption would exceed the limit", func(c *CallCtx) []Outcome {
		g := unwrapGas(c.args[0])
		amt := c.t(1)
		c.st.gasCharged = append(c.st.gasCharged, [2]string{fmt.Sprint(g.ID), amt})
		if g.Origin {
			// outer meter: no panic iff amount <= remaining
			rem := c.x.enc.DeclConst("gas.remaining.0", "Int")
			c.x.panicUnless(c, app("<=", amt, rem), "ConsumeGas(outer meter)")
		}
		return c.ret()
	})

	// ----- hook execution -------------------------------------------------------------------------
	reg("dyn:txDecoder", "TxDecoder is a pure partial function of the bytes; it may fail (A-CODEC)", func(c *CallCtx) []Outcome {
		e := c.x.enc
		e.DeclFun("txDecode", []string{"Bytes"}, "Iface")
		e.DeclFun("txDecodeOK", []string{"Bytes"}, "Bool")
		data := c.t(1)
		ok := app("txDecodeOK", data)
		errT := c.x.enc.FreshConst("maybeerr", "Int")
		c.st.Assume(eq(eq(errT, "0"), ok))
		sig := c.cc.Signature()
		outs := c.ret(TV{T: app("txDecode", data), Ty: sig.Results().At(0).Type()}, TV{T: errT, Ty: tError})
		return c.maybePanic(outs, "txDecoder")
	})
	reg("dyn:decorators", "the ante decorators passed to the keeper either fail or succeed; they touch only auth account state (sequence, pubkey) and gas of the context they are given (A-ANTE); they may panic (e.g. out of gas)", func(c *CallCtx) []Outcome {
		cv := c.args[1].(CtxV)
		outs := c.forkFail(func(st *State) []Value {
			c.x.ghostSet(st, cv.H, "auth.acc", c.x.enc.FreshConst("auth.acc@ante", "(Array Bytes Bool)"))
			c.x.store(st, cv.H).AnteRan = true
			return []Value{cv, nilErr()}
		}, func(st *State, err TV) []Value {
			c.x.ghostSet(st, cv.H, "auth.acc", c.x.enc.FreshConst("auth.acc@ante", "(Array Bytes Bool)"))
			return []Value{cv, err}
		})
		return c.maybePanic(outs, "ante decorators")
	})
	reg("github.com/cosmos/cosmos-sdk/types.Tx.GetMsgs", "Tx.GetMsgs is a pure function of the transaction", func(c *CallCtx) []Outcome {
		e := c.x.enc
		e.DeclFun("txMsgs", []string{"Iface"}, "(GSeq Iface)")
		t := app("txMsgs", c.t(0))
		c.st.Assume(and(app(">=", app("gseq.len", t), "0"), app("<", app("gseq.len", t), two63)))
		return c.ret(TV{T: t, Ty: c.cc.Signature().Results().At(0).Type()})
	})
	reg("(*github.com/cosmos/cosmos-sdk/baseapp.MsgServiceRouter).Handler", "Router.Handler(msg) is nil or a handler for the message type", func(c *CallCtx) []Outcome {
		e := c.x.enc
		e.DeclFun("routable", []string{"Iface"}, "Bool")
		msg := c.x.asTV(c.st, c.args[1])
		has := app("routable", msg.T)
		a := c.st.Clone()
		a.Assume(not(has))
		b := c.st
		b.Assume(has)
		return []Outcome{{st: a, vals: []Value{NilFnV{}}},
			{st: b, vals: []Value{BoundV{Recv: c.args[0], Name: "router.handler"}}}}
	})
	reg("router.handler", "a routed message handler may fail or panic; its effect is arbitrary but confined to the store handle it is given; as a deposit hook it can change other modules' state and, of opchild, only NextL2Sequence (executor- and authority-gated messages need signers the hook cannot provide) (A-ROUTER)", func(c *CallCtx) []Outcome {
		cv, ok := c.args[1].(CtxV)
		if !ok {
			c.x.fail("routed handler called with %s", describe(c.args[1]))
			return nil
		}
		sig := c.cc.Signature()
		outs := c.forkFail(func(st *State) []Value {
			c.x.routerHavoc(st, cv.H)
			return []Value{c.x.freshTV("hookres", sig.Results().At(0).Type(), st), nilErr()}
		}, func(st *State, err TV) []Value {
			c.x.routerHavoc(st, cv.H)
			return []Value{TV{T: c.x.enc.Zero(sig.Results().At(0).Type()), Ty: sig.Results().At(0).Type()}, err}
		})
		return c.maybePanic(outs, "routed message handler")
	})
	reg("github.com/cosmos/cosmos-sdk/types.MsgTypeURL", "MsgTypeURL is a pure function of the message type", func(c *CallCtx) []Outcome {
		e := c.x.enc
		e.DeclFun("msgTypeURL", []string{"Iface"}, "Bytes")
		return c.ret(TV{T: app("msgTypeURL", c.x.asTV(c.st, c.args[0]).T), Ty: tString})
	})
	reg("dyn:G_cosmos_sdk_types_MsgTypeURL", "MsgTypeURL is a pure function of the message type", func(c *CallCtx) []Outcome {
		e := c.x.enc
		e.DeclFun("msgTypeURL", []string{"Iface"}, "Bytes")
		return c.ret(TV{T: app("msgTypeURL", c.x.asTV(c.st, c.args[1]).T), Ty: tString})
	})
}

var nilFuncMeta = &SliceMeta{Owner: "nilfunc", Cell: -1}

func unwrapGas(v Value) GasV {
	if iv, ok := v.(IfaceV); ok {
		v = iv.V
	}
	g, _ := v.(GasV)
	return g
}

// routerHavoc: effect of a routed message on the handle it was given.
func (x *Exec) routerHavoc(st *State, h int) {
	s := x.store(st, h)
	if x.topC != nil && x.topC.Opts["router_writes_all"] {
		s.G = map[string]string{}
		s.Epoch = x.newEpoch()
		s.Havocked = true
	} else {
		for _, n := range hookWrites {
			gi, ok := x.ghostTy[n]
			if !ok {
				continue
			}
			s.G[n] = x.freshGhost(n, "@hook", gi.Sort)
		}
	}
	s.EvOpaque = true
}

func (x *Exec) newEpoch() int {
	x.epochs++
	return x.epochs
}

var _ = types.Typ

func init() {
	reg("github.com/cosmos/cosmos-sdk/types/tx.GetMsgs", "tx.GetMsgs unpacks the Any list into messages: a pure partial function of the list (A-CODEC)", func(c *CallCtx) []Outcome {
		e := c.x.enc
		arg := c.tv(0)
		s := e.Sort(arg.Ty)
		e.DeclFun("unpackMsgs", []string{s}, "(GSeq Iface)")
		e.DeclFun("unpackMsgsOK", []string{s}, "Bool")
		t := app("unpackMsgs", arg.T)
		c.st.Assume(and(app(">=", app("gseq.len", t), "0"), app("<", app("gseq.len", t), two63)))
		errT := e.FreshConst("maybeerr", "Int")
		c.st.Assume(eq(eq(errT, "0"), app("unpackMsgsOK", arg.T)))
		return c.ret(TV{T: t, Ty: c.resultType(0)}, TV{T: errT, Ty: tError})
	})
	reg("github.com/cosmos/cosmos-sdk/codec.Codec.GetMsgV1Signers", "Codec.GetMsgV1Signers returns the signers declared by the message's cosmos.msg.v1.signer option: a pure partial function of the message", func(c *CallCtx) []Outcome {
		e := c.x.enc
		e.DeclFun("msgSigners", []string{"Iface"}, "(GSeq Bytes)")
		e.DeclFun("msgSignersOK", []string{"Iface"}, "Bool")
		m := c.x.asTV(c.st, c.args[1])
		t := app("msgSigners", m.T)
		c.st.Assume(and(app(">=", app("gseq.len", t), "0"), app("<", app("gseq.len", t), two63)))
		errT := e.FreshConst("maybeerr", "Int")
		c.st.Assume(eq(eq(errT, "0"), app("msgSignersOK", m.T)))
		sig := c.cc.Signature()
		return c.ret(TV{T: t, Ty: sig.Results().At(0).Type()}, c.x.freshTV("msgv2", sig.Results().At(1).Type(), c.st), TV{T: errT, Ty: tError})
	})
	reg("github.com/cosmos/cosmos-sdk/types.HasValidateBasic.ValidateBasic", "ValidateBasic is a pure function of the message", func(c *CallCtx) []Outcome {
		e := c.x.enc
		e.DeclFun("validateBasicOK", []string{"Iface"}, "Bool")
		m := c.x.asTV(c.st, c.args[0])
		errT := e.FreshConst("maybeerr", "Int")
		c.st.Assume(eq(eq(errT, "0"), app("validateBasicOK", m.T)))
		return c.ret(TV{T: errT, Ty: tError})
	})
	reg("(github.com/cosmos/cosmos-sdk/types.Result).GetEvents", "Result.GetEvents: events produced by the routed handler (opaque)", func(c *CallCtx) []Outcome {
		return c.ret(ListV{Elems: []Value{TV{T: "opaque_events", Ty: nil}}})
	})
	reg("(*github.com/cosmos/cosmos-sdk/types.Result).GetEvents", "Result.GetEvents: events produced by the routed handler (opaque)", func(c *CallCtx) []Outcome {
		return c.ret(ListV{Elems: []Value{TV{T: "opaque_events", Ty: nil}}})
	})
}

func init() {
	feeUF := func(name, ret string, rt func(c *CallCtx) types.Type) Intrinsic {
		return func(c *CallCtx) []Outcome {
			e := c.x.enc
			e.DeclFun(name, []string{"Iface"}, ret)
			t := app(name, c.x.asTV(c.st, c.args[0]).T)
			ty := c.cc.Signature().Results().At(0).Type()
			for _, f := range e.TypeFacts(t, ty, 0) {
				c.st.Assume(f)
			}
			return c.ret(TV{T: t, Ty: ty})
		}
	}
	reg("github.com/cosmos/cosmos-sdk/types.FeeTx.FeePayer", "FeeTx.FeePayer is a pure function of the transaction", feeUF("feePayer", "Bytes", nil))
	reg("github.com/cosmos/cosmos-sdk/types.FeeTx.FeeGranter", "FeeTx.FeeGranter is a pure function of the transaction", feeUF("feeGranter", "Bytes", nil))
	reg("github.com/cosmos/cosmos-sdk/types.FeeTx.GetGas", "FeeTx.GetGas is a pure function of the transaction", feeUF("txGas", "Int", nil))
	reg("github.com/cosmos/cosmos-sdk/types.FeeTx.GetFee", "FeeTx.GetFee is a pure function of the transaction", func(c *CallCtx) []Outcome {
		e := c.x.enc
		ty := c.cc.Signature().Results().At(0).Type()
		e.DeclFun("txFee", []string{"Iface"}, e.Sort(ty))
		return c.ret(TV{T: app("txFee", c.x.asTV(c.st, c.args[0]).T), Ty: ty})
	})
	reg("FeeWhitelistKeeper.FeeWhitelist", "FeeWhitelistKeeper.FeeWhitelist is Keeper.FeeWhitelist: the FeeWhitelist field of the stored params; fails iff params are unset", func(c *CallCtx) []Outcome {
		kp := c.x.L.SSA[repoPrefix+"/x/opchild/types"]
		pt := kp.Type("Params").Type()
		sort := "(Opt " + c.x.enc.Sort(pt) + ")"
		o := c.x.ghostGet(c.st, handleOf(c.args[1]), "Params", sort, ghostInfo{ValTy: pt, Opt: true})
		some := isSomeT(o, sort)
		wl, _ := c.x.fieldByName(c.st, TV{T: app("val", o), Ty: pt}, "FeeWhitelist")
		for _, f := range c.x.enc.TypeFacts(app("val", o), pt, 0) {
			c.st.Assume(implies(some, f))
		}
		return c.ret(wl, TV{T: ite(some, "0", c.x.errNotFound()), Ty: tError})
	})
	reg("(github.com/cosmos/cosmos-sdk/x/authz.MsgExec).GetMessages", "authz.MsgExec.GetMessages unpacks the inner messages: a pure partial function of the message", func(c *CallCtx) []Outcome {
		e := c.x.enc
		arg := c.tv(0)
		s := e.Sort(arg.Ty)
		e.DeclFun("authzMsgs", []string{s}, "(GSeq Iface)")
		e.DeclFun("authzMsgsOK", []string{s}, "Bool")
		t := app("authzMsgs", arg.T)
		c.st.Assume(and(app(">=", app("gseq.len", t), "0"), app("<", app("gseq.len", t), two63)))
		errT := e.FreshConst("maybeerr", "Int")
		c.st.Assume(eq(eq(errT, "0"), app("authzMsgsOK", arg.T)))
		return c.ret(TV{T: t, Ty: c.resultType(0)}, TV{T: errT, Ty: tError})
	})
	reg("dyn:next", "the next ante handler: arbitrary, confined to the context it is given", func(c *CallCtx) []Outcome {
		c.st.nextCalled++
		sig := c.cc.Signature()
		return c.ret(c.args[1], c.x.freshTV("nexterr", sig.Results().At(1).Type(), c.st))
	})
	reg("AnteKeeper.MinGasPrices", "AnteKeeper.MinGasPrices is Keeper.MinGasPrices: the MinGasPrices field of the stored params; fails iff params are unset", func(c *CallCtx) []Outcome {
		kp := c.x.L.SSA[repoPrefix+"/x/opchild/types"]
		pt := kp.Type("Params").Type()
		sort := "(Opt " + c.x.enc.Sort(pt) + ")"
		o := c.x.ghostGet(c.st, handleOf(c.args[1]), "Params", sort, ghostInfo{ValTy: pt, Opt: true})
		some := isSomeT(o, sort)
		v, _ := c.x.fieldByName(c.st, TV{T: app("val", o), Ty: pt}, "MinGasPrices")
		return c.ret(v, TV{T: ite(some, "0", c.x.errNotFound()), Ty: tError})
	})
	reg("(github.com/cosmos/cosmos-sdk/types.Context).MinGasPrices", "Context.MinGasPrices is the node's configured minimum gas prices (a fixed value of the context)", func(c *CallCtx) []Outcome {
		ty := c.resultType(0)
		n := c.x.enc.DeclConst("ctx.minGasPrices", c.x.enc.Sort(ty))
		return c.ret(TV{T: n, Ty: ty})
	})
}

func init() {
	// ----- coin algebra used by the fee checker (A-COIN) -----------------------------------------------
	reg("(github.com/cosmos/cosmos-sdk/types.DecCoins).Validate", "DecCoins.Validate: a pure partial check of the list (sorted, valid denoms, positive amounts) (A-COIN)", func(c *CallCtx) []Outcome {
		errT := c.x.enc.FreshConst("maybeerr", "Int")
		c.st.Assume(eq(eq(errT, "0"), c.uf("decCoinsValid", "Bool", c.tv(0))))
		return c.ret(TV{T: errT, Ty: tError})
	})
}
