package main

// D1, formatted output: a printf-style call (fmt.*f, cosmossdk.io/errors.Wrapf / Error.Wrapf) whose verb makes fmt print the
// ADDRESS held in an operand – %p, or a verb fmt does not route through the operand's String/Error/Format method applied to a
// value that contains a pointer (e.g. %d on math.Int, a struct around *big.Int). Addresses differ from process to process.

import (
	"go/constant"
	"go/types"
	"strings"

	"golang.org/x/tools/go/ssa"
)

// variadicOperands recovers the operands packed into the []any of a variadic call (new [n]any; stores of MakeInterface; slice).
func variadicOperands(v ssa.Value) ([]ssa.Value, bool) {
	sl, ok := v.(*ssa.Slice)
	if !ok {
		if c, isC := v.(*ssa.Const); isC && c.Value == nil {
			return nil, true // no operands
		}
		return nil, false
	}
	al, ok := sl.X.(*ssa.Alloc)
	if !ok {
		return nil, false
	}
	at, ok := deref(al.Type()).Underlying().(*types.Array)
	if !ok {
		return nil, false
	}
	out := make([]ssa.Value, at.Len())
	for _, r := range *al.Referrers() {
		ia, ok := r.(*ssa.IndexAddr)
		if !ok {
			continue
		}
		k, ok := ia.Index.(*ssa.Const)
		if !ok || k.Value == nil {
			return nil, false
		}
		idx, _ := constant.Int64Val(k.Value)
		for _, rr := range *ia.Referrers() {
			if st, ok := rr.(*ssa.Store); ok && st.Addr == ssa.Value(ia) && idx >= 0 && idx < int64(len(out)) {
				out[idx] = st.Val
			}
		}
	}
	return out, true
}

// verbsOf lists the verbs of a format string in operand order; ok is false when the format uses '*' or explicit indexes.
func verbsOf(f string) (verbs []byte, ok bool) {
	for i := 0; i < len(f); i++ {
		if f[i] != '%' {
			continue
		}
		i++
		for i < len(f) && strings.IndexByte("+-# 0123456789.", f[i]) >= 0 {
			i++
		}
		if i >= len(f) {
			break
		}
		if f[i] == '*' || f[i] == '[' {
			return nil, false
		}
		if f[i] == '%' {
			continue
		}
		verbs = append(verbs, f[i])
	}
	return verbs, true
}

func hasMethod(t types.Type, name string) bool {
	for _, tt := range []types.Type{t, types.NewPointer(t)} {
		ms := types.NewMethodSet(tt)
		for i := 0; i < ms.Len(); i++ {
			if ms.At(i).Obj().Name() == name {
				if tt != t {
					// pointer-receiver method: fmt sees it only if the operand itself is a pointer
					if _, isPtr := t.Underlying().(*types.Pointer); !isPtr {
						continue
					}
				}
				return true
			}
		}
	}
	return false
}

// viaMethod: fmt formats an operand of type t under this verb by calling its Format / Error / String method.
func viaMethod(t types.Type, verb byte) bool {
	if hasMethod(t, "Format") {
		return true
	}
	if strings.IndexByte("vsxXq", verb) >= 0 {
		return hasMethod(t, "Error") || hasMethod(t, "String")
	}
	return false
}

// printsAddress: formatting a value of static type t with this verb prints a memory address (for some non-nil value).
func printsAddress(t types.Type, verb byte, depth int, seen map[types.Type]bool) bool {
	if t == nil || depth > 6 || seen[t] {
		return false
	}
	seen[t] = true
	defer delete(seen, t)
	if depth == 0 || exportedReachable(t) {
		if viaMethod(t, verb) {
			return false
		}
	}
	switch u := t.Underlying().(type) {
	case *types.Basic:
		return u.Kind() == types.UnsafePointer
	case *types.Chan, *types.Signature:
		return true
	case *types.Pointer:
		if depth == 0 {
			switch u.Elem().Underlying().(type) {
			case *types.Struct, *types.Array, *types.Slice, *types.Map:
				return printsAddress(u.Elem(), verb, 1, seen)
			}
		}
		return true
	case *types.Struct:
		for i := 0; i < u.NumFields(); i++ {
			f := u.Field(i)
			ft := f.Type()
			if f.Exported() && viaMethod(ft, verb) {
				continue
			}
			if printsAddressField(ft, verb, depth+1, seen, f.Exported()) {
				return true
			}
		}
	case *types.Array:
		return printsAddress(u.Elem(), verb, depth+1, seen)
	case *types.Slice:
		if isByte(u.Elem()) {
			return false
		}
		return printsAddress(u.Elem(), verb, depth+1, seen)
	case *types.Map:
		return printsAddress(u.Key(), verb, depth+1, seen) || printsAddress(u.Elem(), verb, depth+1, seen)
	case *types.Interface:
		return false // dynamic type unknown: not flagged
	}
	return false
}

// a field's methods are used only if fmt can obtain the field as an interface value (exported field)
func printsAddressField(t types.Type, verb byte, depth int, seen map[types.Type]bool, exported bool) bool {
	if !exported {
		// methods are not consulted below an unexported field
		switch u := t.Underlying().(type) {
		case *types.Pointer, *types.Chan, *types.Signature:
			_ = u
			return true
		case *types.Basic:
			return u.Kind() == types.UnsafePointer
		case *types.Struct:
			for i := 0; i < u.NumFields(); i++ {
				if printsAddressField(u.Field(i).Type(), verb, depth+1, seen, false) {
					return true
				}
			}
			return false
		case *types.Array:
			return printsAddressField(u.Elem(), verb, depth+1, seen, false)
		case *types.Slice:
			if isByte(u.Elem()) {
				return false
			}
			return printsAddressField(u.Elem(), verb, depth+1, seen, false)
		case *types.Map:
			return printsAddressField(u.Key(), verb, depth+1, seen, false) || printsAddressField(u.Elem(), verb, depth+1, seen, false)
		}
		return false
	}
	return printsAddress(t, verb, depth, seen)
}

func exportedReachable(t types.Type) bool { return true }

// fmtAddressLeaks inspects one printf-style call; it returns a description of every operand whose address would be printed.
func fmtAddressLeaks(call *ssa.CallCommon) []string {
	args := call.Args
	fi := -1
	for i, a := range args {
		if c, ok := a.(*ssa.Const); ok && c.Value != nil && c.Value.Kind() == constant.String && strings.Contains(constant.StringVal(c.Value), "%") {
			fi = i
			break
		}
	}
	if fi < 0 || fi+1 >= len(args) {
		return nil
	}
	format := constant.StringVal(args[fi].(*ssa.Const).Value)
	verbs, ok := verbsOf(format)
	if !ok {
		return nil
	}
	ops, ok := variadicOperands(args[fi+1])
	if !ok {
		return nil
	}
	var out []string
	for i, vb := range verbs {
		if i >= len(ops) || ops[i] == nil {
			break
		}
		if vb == 'p' {
			continue // reported by the %p rule
		}
		if vb == 'T' || vb == 't' {
			continue
		}
		op := ops[i]
		t := op.Type()
		if mi, ok := op.(*ssa.MakeInterface); ok {
			t = mi.X.Type()
		}
		if _, isIface := t.Underlying().(*types.Interface); isIface {
			continue
		}
		if printsAddress(t, vb, 0, map[types.Type]bool{}) {
			out = append(out, "%"+string(vb)+" applied to an operand of type "+types.TypeString(t, nil)+" prints the address of a pointer it holds (fmt does not use its String method for this verb)")
		}
	}
	return out
}
