package main

// C18: the determinism discipline as obligations over go/ssa (decided syntactically / by def-use, no solver):
//   D1  no call to a nondeterministic callee (wall clock, timers, randomness, environment, runtime, libraries that run closures on
//       other goroutines, map iteration order behind maps.Keys / reflect, %p formatting), no goroutine, no select, no floating point;
//       time.Now is tolerated only when its value flows exclusively into telemetry calls
//   D2  every range over a Go map lies in a function that is verified against a contract with the map-range
//       model (arbitrary iteration order), so its observable effect is proved order-independent
//   D4  no write to a package-level variable outside init; keeper fields that are process memory are listed

import (
	"fmt"
	"go/constant"
	"go/token"
	"go/types"
	"sort"
	"strings"

	"golang.org/x/tools/go/ssa"
	"golang.org/x/tools/go/ssa/ssautil"
)

type DisciplineResult struct {
	Functions int
	Obls      []*Obligation
	Notes     []string
}

func repoFn(fn *ssa.Function) bool {
	p := pkgOf(fn)
	return p != nil && strings.HasPrefix(p.Pkg.Path(), repoPrefix+"/x/")
}

func generated(L *Loaded, fn *ssa.Function) bool {
	f := L.Fset.Position(fn.Pos()).Filename
	return f == "" || strings.HasSuffix(f, ".pb.go") || strings.HasSuffix(f, ".pb.gw.go") || strings.Contains(f, "/client/cli/") ||
		strings.HasSuffix(f, "_test.go")
}

var nondetPkgs = map[string]bool{"math/rand": true, "math/rand/v2": true, "crypto/rand": true, "os": true, "runtime": true, "os/exec": true, "net": true, "net/http": true,
	// process / build / machine information
	"runtime/debug": true, "runtime/pprof": true, "runtime/metrics": true, "runtime/trace": true, "debug/buildinfo": true, "os/user": true, "os/signal": true,
	"syscall": true, "hash/maphash": true, "plugin": true,
	// libraries that run the caller's closures on other goroutines: which closure finishes (or fails) first depends on scheduling
	"golang.org/x/sync/errgroup": true, "golang.org/x/sync/singleflight": true, "golang.org/x/sync/semaphore": true}

// methods of time.Time whose result depends on the location of the value (time.Unix, time.Now and parsed local times carry the
// machine's zone; block times from the header are UTC, but the scan cannot tell them apart unless .UTC() is applied first)
var zoneDependent = map[string]bool{
	"(time.Time).Format": true, "(time.Time).AppendFormat": true, "(time.Time).String": true, "(time.Time).GoString": true,
	"(time.Time).Local": true, "(time.Time).Zone": true, "(time.Time).Location": true, "(time.Time).MarshalJSON": true, "(time.Time).MarshalText": true,
	"(time.Time).Date": true, "(time.Time).Clock": true, "(time.Time).Year": true, "(time.Time).Month": true, "(time.Time).Day": true, "(time.Time).Hour": true,
	"(time.Time).Minute": true, "(time.Time).Weekday": true, "(time.Time).YearDay": true, "(time.Time).ISOWeek": true, "time.LoadLocation": true,
}

// concurrency / timer entry points of the standard library whose effect depends on scheduling or on the wall clock
var nondetFuncs = map[string]bool{
	"(*sync.WaitGroup).Go": true, "(*sync.WaitGroup).Add": true, "(*sync.WaitGroup).Wait": true, "(*sync.Cond).Wait": true, "(*sync.Cond).Signal": true, "(*sync.Cond).Broadcast": true,
	"time.Since": true, "time.Until": true, "time.After": true, "time.Tick": true, "time.NewTimer": true, "time.NewTicker": true, "time.AfterFunc": true, "time.Sleep": true,
	"context.WithTimeout": true, "context.WithDeadline": true, "context.AfterFunc": true,
	// iteration order of a Go map behind a library call
	"maps.Keys": true, "maps.Values": true, "maps.All": true, "golang.org/x/exp/maps.Keys": true, "golang.org/x/exp/maps.Values": true,
	"(reflect.Value).MapKeys": true, "(reflect.Value).MapRange": true, "(reflect.Value).Pointer": true, "(reflect.Value).UnsafeAddr": true, "(reflect.Value).UnsafePointer": true,
}

func runDiscipline(s *Session, prop string, verified map[string]bool) *DisciplineResult {
	res := &DisciplineResult{}
	all := ssautil.AllFunctions(s.L.Prog)
	var fns []*ssa.Function
	for fn := range all {
		if fn.Blocks == nil || !repoFn(fn) || generated(s.L, fn) {
			continue
		}
		// module wiring, CLI and codec registration are not state-transition code
		file := s.L.Fset.Position(fn.Pos()).Filename
		if strings.HasSuffix(file, "/module.go") || strings.HasSuffix(file, "/codec.go") || strings.HasSuffix(file, "/autocli.go") {
			continue
		}
		fns = append(fns, fn)
	}
	sort.Slice(fns, func(i, j int) bool { return fns[i].String() < fns[j].String() })
	res.Functions = len(fns)
	add := func(name, clause string, ok bool, detail string) {
		o := &Obligation{Name: prop + "." + name, Kind: "discipline", Clause: clause, Goal: "true", Result: "unsat", Solver: "ssa-scan"}
		if !ok {
			o.Result = "sat"
			o.Model = detail
			o.Goal = "false"
		}
		res.Obls = append(res.Obls, o)
	}
	for _, fn := range fns {
		short := strings.TrimPrefix(fn.String(), repoPrefix+"/")
		var bad []string
		var mapRanges, globals []string
		for _, b := range fn.Blocks {
			for _, in := range b.Instrs {
				switch i := in.(type) {
				case *ssa.Go:
					bad = append(bad, "starts a goroutine at "+s.L.Fset.Position(i.Pos()).String())
				case *ssa.Select:
					bad = append(bad, "select at "+s.L.Fset.Position(i.Pos()).String())
				case *ssa.Convert:
					// the address of a variable used as a number (differs from process to process)
					if xb, ok := i.X.Type().Underlying().(*types.Basic); ok && xb.Kind() == types.UnsafePointer {
						if rb, ok := i.Type().Underlying().(*types.Basic); ok && rb.Kind() == types.Uintptr {
							bad = append(bad, "converts a pointer to an integer at "+s.L.Fset.Position(i.Pos()).String())
						}
					}
				case *ssa.BinOp:
					// floating point in consensus code: Go may fuse x*y+z on some architectures, so nodes can disagree in the last bit
					if b, ok := i.X.Type().Underlying().(*types.Basic); ok && b.Info()&types.IsFloat != 0 && (i.Op == token.MUL || i.Op == token.ADD || i.Op == token.SUB || i.Op == token.QUO) {
						bad = append(bad, "floating-point arithmetic at "+s.L.Fset.Position(i.Pos()).String())
					}
				case *ssa.Range:
					if _, ok := i.X.Type().Underlying().(*types.Map); ok {
						mapRanges = append(mapRanges, s.L.Fset.Position(i.Pos()).String())
					}
				case *ssa.Store:
					if g := globalRoot(i.Addr); g != nil && fn.Name() != "init" && !strings.HasPrefix(fn.Name(), "init#") {
						globals = append(globals, g.Name())
					}
					if f, shared := receiverMemory(fn, i.Addr); shared && !processMemoryAllowed[f] {
						globals = append(globals, "process memory behind receiver field "+f+" (store through a pointer)")
					}
				case *ssa.MapUpdate:
					if g := globalRoot(i.Map); g != nil && fn.Name() != "init" && !strings.HasPrefix(fn.Name(), "init#") {
						globals = append(globals, g.Name()+" (map update)")
					}
					if f, _ := receiverMemory(fn, i.Map); f != "" && !processMemoryAllowed[f] {
						globals = append(globals, "process memory behind receiver field "+f+" (map update)")
					}
				case ssa.CallInstruction:
					if b, ok := i.Common().Value.(*ssa.Builtin); ok && b.Name() == "delete" && len(i.Common().Args) > 0 {
						if f, _ := receiverMemory(fn, i.Common().Args[0]); f != "" && !processMemoryAllowed[f] {
							globals = append(globals, "process memory behind receiver field "+f+" (map delete)")
						}
					}
					f := i.Common().StaticCallee()
					if f == nil || f.Pkg == nil {
						continue
					}
					pp := f.Pkg.Pkg.Path()
					if pp == "time" && f.Name() == "Now" {
						if v, isVal := in.(ssa.Value); !isVal || !onlyTelemetry(v) {
							bad = append(bad, "time.Now() flows into something other than telemetry at "+s.L.Fset.Position(in.Pos()).String())
						}
						continue
					}
					if pp == "fmt" || strings.HasSuffix(pp, "cosmossdk.io/errors") {
						// a pointer value printed into a string (error text, event attribute): differs from process to process
						for _, a := range i.Common().Args {
							if c, ok := a.(*ssa.Const); ok && c.Value != nil && c.Value.Kind() == constant.String && strings.Contains(constant.StringVal(c.Value), "%p") {
								bad = append(bad, "formats a pointer with %p in "+f.String()+" at "+s.L.Fset.Position(in.Pos()).String())
							}
						}
						for _, leak := range fmtAddressLeaks(i.Common()) {
							bad = append(bad, leak+" in "+f.String()+" at "+s.L.Fset.Position(in.Pos()).String())
						}
					}
					if zoneDependent[f.String()] {
						// rendering / splitting a time in its location: time.Unix(..) and friends are in the machine's local zone
						fromUTC := false
						if len(i.Common().Args) > 0 {
							if c, ok := i.Common().Args[0].(*ssa.Call); ok {
								if cf := c.Call.StaticCallee(); cf != nil && cf.String() == "(time.Time).UTC" {
									fromUTC = true
								}
							}
						}
						if !fromUTC {
							bad = append(bad, "calls "+f.String()+" on a time that is not explicitly UTC (the result depends on the machine's time zone) at "+s.L.Fset.Position(in.Pos()).String())
						}
						continue
					}
					if fo := f.Origin(); fo != nil && nondetFuncs[fo.String()] {
						bad = append(bad, "calls "+fo.String()+" at "+s.L.Fset.Position(in.Pos()).String())
						continue
					}
					if nondetPkgs[pp] || nondetFuncs[f.String()] {
						if v, isVal := in.(ssa.Value); (f.String() == "time.Since" || f.String() == "time.Until") && isVal && onlyTelemetry(v) {
							continue
						}
						bad = append(bad, "calls "+f.String()+" at "+s.L.Fset.Position(in.Pos()).String())
					}
					// process-wide memory behind a method call: sync.Map / atomic values held in package-level variables
					if (pp == "sync" || pp == "sync/atomic") && fn.Name() != "init" {
						switch f.Name() {
						case "Store", "LoadOrStore", "LoadAndDelete", "Delete", "Swap", "CompareAndSwap", "CompareAndDelete", "Add", "Range", "Load", "Clear":
							for _, a := range i.Common().Args {
								if g := globalRoot(a); g != nil {
									globals = append(globals, g.Name()+" (via "+f.String()+")")
								}
								if fd, _ := receiverMemory(fn, a); fd != "" && !processMemoryAllowed[fd] {
									globals = append(globals, "process memory behind receiver field "+fd+" (via "+f.String()+")")
								}
							}
						}
					}
				}
			}
		}
		add(short+".D1.deterministic_callees", "no wall clock / randomness / environment / goroutine / select in "+short, len(bad) == 0, strings.Join(bad, "; "))
		if len(mapRanges) > 0 {
			key := contractKey(fn)
			ok := verified[key]
			add(short+".D2.map_range_order_insensitive", "every range over a Go map in "+short+" is inside a function verified with the arbitrary-order map-range model", ok,
				fmt.Sprintf("map range at %s in a function without a verified contract (%s)", strings.Join(mapRanges, ", "), key))
		}
		if len(globals) > 0 {
			add(short+".D4.no_global_writes", "no write to package-level variables outside init in "+short, false, "writes "+strings.Join(globals, ", "))
		}
	}
	add("global.D4.no_global_writes", "no package-level variable is written outside init by state-transition code", true, "")
	res.Notes = append(res.Notes, "keeper field ExecutorChangePlans is per-process memory (a Go map written by RegisterExecutorChangePlan): by design, see C14 limits")
	return res
}

// onlyTelemetry: the value (result of time.Now) is used only as an argument of telemetry calls / defers.
func onlyTelemetry(v ssa.Value) bool {
	refs := v.Referrers()
	if refs == nil {
		return true
	}
	for _, r := range *refs {
		switch u := r.(type) {
		case *ssa.DebugRef:
		case ssa.CallInstruction:
			f := u.Common().StaticCallee()
			if f == nil || f.Pkg == nil || !strings.HasSuffix(f.Pkg.Pkg.Path(), "cosmos-sdk/telemetry") {
				return false
			}
		default:
			return false
		}
	}
	return true
}

// processMemoryAllowed: receiver fields that are per-process memory by design (listed in the evidence notes).
var processMemoryAllowed = map[string]bool{"Keeper.ExecutorChangePlans": true}

// receiverMemory: v is reached through a field of the method receiver (a keeper, msg server, handler, store wrapper ...).
// Such memory outlives the transaction and is not part of the revertible store: a cache or registry kept there makes
// results depend on the process history. Returns "Type.field" and whether the path goes through a pointer load
// (memory shared with other calls even for a value receiver).
func receiverMemory(fn *ssa.Function, v ssa.Value) (string, bool) {
	if fn.Signature.Recv() == nil || len(fn.Params) == 0 {
		return "", false
	}
	recv := fn.Params[0]
	field, viaPtr := "", false
	for d := 0; d < 12; d++ {
		switch a := v.(type) {
		case *ssa.FieldAddr:
			st, _ := deref(a.X.Type()).Underlying().(*types.Struct)
			if st != nil {
				field = st.Field(a.Field).Name()
			}
			v = a.X
		case *ssa.Field:
			st, _ := a.X.Type().Underlying().(*types.Struct)
			if st != nil {
				field = st.Field(a.Field).Name()
			}
			v = a.X
		case *ssa.IndexAddr:
			v = a.X
		case *ssa.UnOp:
			if a.Op == token.MUL {
				viaPtr = true
			}
			v = a.X
		case *ssa.Alloc:
			// the receiver spilled to a local (value receiver whose address is taken): follow the initial store
			var src ssa.Value
			if refs := a.Referrers(); refs != nil {
				for _, r := range *refs {
					if st, ok := r.(*ssa.Store); ok && st.Addr == a {
						if p, ok := st.Val.(*ssa.Parameter); ok && p == recv {
							src = p
						}
					}
				}
			}
			if src == nil {
				return "", false
			}
			v = src
		case *ssa.Parameter:
			if a != recv || field == "" {
				return "", false
			}
			n := namedPath(deref(a.Type()))
			if !strings.HasPrefix(n, repoPrefix) || !isServiceType(deref(a.Type()), 0) {
				// plain data (messages, genesis states, sortable lists) is not process memory
				return "", false
			}
			if _, isPtr := a.Type().Underlying().(*types.Pointer); isPtr {
				viaPtr = true
			}
			return lastSeg(n) + "." + field, viaPtr
		default:
			return "", false
		}
	}
	return "", false
}

// isServiceType: a struct that holds store collections, keeper interfaces or callbacks (keepers, msg servers, queriers,
// handlers, decorators, store wrappers) - an object that lives as long as the process, unlike messages and other data.
func isServiceType(t types.Type, depth int) bool {
	st, ok := t.Underlying().(*types.Struct)
	if !ok || depth > 3 {
		return false
	}
	for i := 0; i < st.NumFields(); i++ {
		ft := st.Field(i).Type()
		if strings.HasPrefix(namedPath(deref(ft)), "cosmossdk.io/collections") {
			return true
		}
		switch u := deref(ft).Underlying().(type) {
		case *types.Interface:
			// codecs are stateless helpers that data types carry too (types.Validators holds an address codec)
			if u.NumMethods() > 0 && !strings.HasSuffix(namedPath(deref(ft)), ".Codec") {
				return true
			}
		case *types.Signature:
			return true
		case *types.Struct:
			if isServiceType(deref(ft), depth+1) {
				return true
			}
		}
	}
	return false
}

// globalRoot follows field / index / load chains back to a package-level variable.
func globalRoot(v ssa.Value) *ssa.Global {
	for d := 0; d < 8; d++ {
		switch a := v.(type) {
		case *ssa.Global:
			return a
		case *ssa.FieldAddr:
			v = a.X
		case *ssa.IndexAddr:
			v = a.X
		case *ssa.UnOp:
			v = a.X
		case *ssa.Field:
			v = a.X
		default:
			return nil
		}
	}
	return nil
}

// D5 (C07/C09/C04): the msg service router gives every routed message a fresh event manager and returns the message's
// events in the *sdk.Result. A caller that routes messages itself (deposit hook, ExecuteMessages) must therefore emit the
// events of every result, otherwise what the routed handler announced - e.g. a token withdrawal, whose only record is its
// event - never reaches the transaction. Decided by def-use over go/ssa: the first result of every call through a value of
// type baseapp.MsgServiceHandler must flow into Result.GetEvents whose value is used.
func runEventForwarding(s *Session, prop string) *DisciplineResult {
	res := &DisciplineResult{}
	all := ssautil.AllFunctions(s.L.Prog)
	var fns []*ssa.Function
	for fn := range all {
		if fn.Blocks == nil || !repoFn(fn) || generated(s.L, fn) {
			continue
		}
		fns = append(fns, fn)
	}
	sort.Slice(fns, func(i, j int) bool { return fns[i].String() < fns[j].String() })
	ord := map[*ssa.Function]int{}
	for _, fn := range fns {
		for _, b := range fn.Blocks {
			for _, in := range b.Instrs {
				call, ok := in.(*ssa.Call)
				if !ok || call.Call.IsInvoke() || call.Call.StaticCallee() != nil {
					continue
				}
				if !isMsgHandlerType(call.Call.Value.Type()) {
					continue
				}
				res.Functions++
				short := strings.TrimPrefix(fn.String(), repoPrefix+"/")
				pos := s.L.Fset.Position(call.Pos())
				okFwd := false
				if refs := call.Referrers(); refs != nil {
					for _, r := range *refs {
						if ex, isEx := r.(*ssa.Extract); isEx && ex.Index == 0 && eventsRead(ex, 0) {
							// ... and what was read is handed to an event manager: at once, or accumulated with append
							// (a plain assignment to a loop-carried variable keeps only the last message's events)
							for _, ev := range eventValues(ex, 0) {
								if eventsEmitted(ev, false, 0, map[ssa.Value]bool{}) {
									okFwd = true
								}
							}
						}
					}
				}
				ord[fn]++
				o := &Obligation{Name: fmt.Sprintf("%s.%s.D5.routed_message_events_forwarded#%d", prop, short, ord[fn]), Func: fn.String(), Kind: "discipline",
					Clause: "the events of every message routed by " + short + " are read from its Result (GetEvents) and used", Goal: "true", Result: "unsat", Solver: "ssa-scan"}
				if !okFwd {
					o.Result, o.Goal = "sat", "false"
					o.Model = "the events in the *sdk.Result of the routed handler at " + pos.String() + " are discarded, or overwritten by those of a later message, before they reach an event manager"
				}
				res.Obls = append(res.Obls, o)
			}
		}
	}
	return res
}

func filepathBase(p string) string {
	if i := strings.LastIndex(p, "/"); i >= 0 {
		return p[i+1:]
	}
	return p
}

// isMsgHandlerType: func(sdk.Context, sdk.Msg) (*sdk.Result, error), however it is named.
func isMsgHandlerType(t types.Type) bool {
	sig, ok := t.Underlying().(*types.Signature)
	if !ok || sig.Params().Len() != 2 || sig.Results().Len() != 2 {
		return false
	}
	r0 := types.TypeString(sig.Results().At(0).Type(), nil)
	p0 := types.TypeString(sig.Params().At(0).Type(), nil)
	return strings.HasSuffix(r0, "cosmos-sdk/types.Result") && strings.HasSuffix(p0, "cosmos-sdk/types.Context") && isErrorType(sig.Results().At(1).Type())
}

// eventsRead: the value (a *sdk.Result or something derived from it by loads, field accesses, phis) reaches a use of
// its events (GetEvents call or the Events field) whose value is itself used.
func eventsRead(v ssa.Value, depth int) bool {
	refs := v.Referrers()
	if refs == nil || depth > 5 {
		return false
	}
	for _, u := range *refs {
		switch x := u.(type) {
		case *ssa.Call:
			if f := x.Call.StaticCallee(); f != nil && f.Name() == "GetEvents" && x.Referrers() != nil && len(*x.Referrers()) > 0 {
				return true
			}
		case *ssa.FieldAddr:
			if x.Referrers() != nil && len(*x.Referrers()) > 0 && fieldName(x.X.Type(), x.Field) == "Events" {
				return true
			}
			if eventsRead(x, depth+1) {
				return true
			}
		case *ssa.Field:
			if fieldName(x.X.Type(), x.Field) == "Events" && x.Referrers() != nil && len(*x.Referrers()) > 0 {
				return true
			}
		case *ssa.UnOp:
			if eventsRead(x, depth+1) {
				return true
			}
		case *ssa.Phi:
			if eventsRead(x, depth+1) {
				return true
			}
		case *ssa.Store:
			// stored into a local that is read later: follow the address
			if a, ok := x.Addr.(ssa.Value); ok && x.Val == v && eventsRead(a, depth+1) {
				return true
			}
		}
	}
	return false
}

// eventValues: the values that hold the events of a routed handler's result (GetEvents() calls, reads of the Events field).
func eventValues(v ssa.Value, depth int) []ssa.Value {
	refs := v.Referrers()
	if refs == nil || depth > 5 {
		return nil
	}
	var out []ssa.Value
	for _, u := range *refs {
		switch x := u.(type) {
		case *ssa.Call:
			if f := x.Call.StaticCallee(); f != nil && f.Name() == "GetEvents" {
				out = append(out, x)
			}
		case *ssa.FieldAddr:
			if fieldName(x.X.Type(), x.Field) == "Events" {
				if rr := x.Referrers(); rr != nil {
					for _, l := range *rr {
						if un, ok := l.(*ssa.UnOp); ok && un.Op == token.MUL {
							out = append(out, un)
						}
					}
				}
			} else {
				out = append(out, eventValues(x, depth+1)...)
			}
		case *ssa.Field:
			if fieldName(x.X.Type(), x.Field) == "Events" {
				out = append(out, x)
			}
		case *ssa.UnOp:
			out = append(out, eventValues(x, depth+1)...)
		case *ssa.Phi:
			out = append(out, eventValues(x, depth+1)...)
		}
	}
	return out
}

// eventsEmitted: the value reaches an Emit* call of an event manager. Through a loop-header phi only after an append
// (accumulation); an un-appended value in a loop-carried variable is overwritten by the next iteration.
func eventsEmitted(v ssa.Value, appended bool, depth int, seen map[ssa.Value]bool) bool {
	if seen[v] || depth > 12 {
		return false
	}
	seen[v] = true
	refs := v.Referrers()
	if refs == nil {
		return false
	}
	for _, u := range *refs {
		switch x := u.(type) {
		case ssa.CallInstruction:
			cc := x.Common()
			if cc.IsInvoke() && strings.HasPrefix(cc.Method.Name(), "Emit") {
				return true
			}
			if f := cc.StaticCallee(); f != nil && strings.HasPrefix(f.Name(), "Emit") {
				return true
			}
			if b, ok := cc.Value.(*ssa.Builtin); ok && b.Name() == "append" && len(cc.Args) == 2 {
				if val, ok := x.(ssa.Value); ok {
					if cc.Args[1] == v && eventsEmitted(val, true, depth+1, seen) {
						return true
					}
					if cc.Args[0] == v && eventsEmitted(val, appended, depth+1, seen) {
						return true
					}
				}
			}
		case *ssa.Phi:
			header := false
			for _, p := range x.Block().Preds {
				if p.Index >= x.Block().Index {
					header = true
				}
			}
			if header && !appended {
				continue
			}
			if eventsEmitted(x, appended, depth+1, seen) {
				return true
			}
		case *ssa.Slice:
			if eventsEmitted(x, appended, depth+1, seen) {
				return true
			}
		case *ssa.ChangeType:
			if eventsEmitted(x, appended, depth+1, seen) {
				return true
			}
		case *ssa.Convert:
			if eventsEmitted(x, appended, depth+1, seen) {
				return true
			}
		case *ssa.MakeInterface:
			if eventsEmitted(x, appended, depth+1, seen) {
				return true
			}
		case *ssa.Store:
			if x.Val == v {
				// a variable that lives in memory (captured / address taken): follow its loads
				if a, ok := x.Addr.(ssa.Value); ok {
					if rr := a.Referrers(); rr != nil {
						for _, l := range *rr {
							if un, ok := l.(*ssa.UnOp); ok && un.Op == token.MUL && eventsEmitted(un, appended, depth+1, seen) {
								return true
							}
						}
					}
				}
			}
		}
	}
	return false
}

func fieldName(t types.Type, i int) string {
	if p, ok := t.Underlying().(*types.Pointer); ok {
		t = p.Elem()
	}
	if st, ok := t.Underlying().(*types.Struct); ok && i < st.NumFields() {
		return st.Field(i).Name()
	}
	return ""
}
