package main

// Loops are cut at their headers with invariants from the contract file; Map.Walk callbacks likewise.

import (
	"regexp"
	"fmt"
	"go/token"
	"os"
	"go/types"
	"strings"

	"golang.org/x/tools/go/ssa"
)

type walkCtx struct{}

func (x *Exec) contractOf(fn *ssa.Function) *Contract {
	if fn == x.top {
		return x.topC
	}
	if k := contractKey(fn); k != "" {
		return x.db.ByKey[k]
	}
	return nil
}

// frameEnv builds the spec environment of a frame at the current state.
func (x *Exec) frameEnv(st *State, fr *Frame) *cenv {
	// names visible at this point: the frame's own locals, then those of the enclosing frames (closures
	// called back from Map.Walk see the variables of the function that created them)
	names := fr.names
	if fr.parent != nil {
		names = map[string]Value{}
		var chain []*Frame
		for f := fr; f != nil; f = f.parent {
			chain = append(chain, f)
		}
		for i := len(chain) - 1; i >= 0; i-- {
			for k, v := range chain[i].names {
				names[k] = v
			}
		}
	}
	env := &cenv{x: x, st: st, old: x.entry, names: names, oldNames: x.entryNames, pkg: pkgOf(fr.fn)}
	if !fr.isTop {
		// inlined callee: old() still refers to the entry of the verified function
		env.oldNames = fr.names
	}
	return env
}

func (x *Exec) enterLoop(st *State, fr *Frame, from, to *ssa.BasicBlock, li *loopInfo) []Outcome {
	k := li.ord[to]
	isBack := fr.loops[to] && li.body[to][from]
	if os.Getenv("GOVC_DEBUG") != "" && x.probe != nil {
		fmt.Fprintf(os.Stderr, "probe: enterLoop %d -> %d isBack=%v sameFr=%v\n", from.Index, to.Index, isBack, x.probe.sameFrame(fr))
	}
	// phi values along this edge
	nphi := 0
	var phis []*ssa.Phi
	var vals []Value
	for _, in := range to.Instrs {
		phi, ok := in.(*ssa.Phi)
		if !ok {
			break
		}
		nphi++
		for i, p := range to.Preds {
			if p == from {
				vals = append(vals, x.val(fr, st, phi.Edges[i]))
			}
		}
		phis = append(phis, phi)
	}
	// env is shared between sequentially explored paths: remember the header values so that the
	// back-edge evaluation below does not leak into sibling paths
	savedEnv := make([]Value, len(phis))
	savedHas := make([]bool, len(phis))
	for i, phi := range phis {
		savedEnv[i], savedHas[i] = fr.env[phi]
	}
	savedNames := cloneNames(fr.names)
	for i, phi := range phis {
		fr.env[phi] = vals[i]
		x.bindPhiName(fr, phi, vals[i])
	}
	ct := x.contractOf(fr.fn)
	var invs []*Clause
	if ct != nil {
		for _, cl := range ct.Of("invariant") {
			if cl.Loop == k {
				invs = append(invs, cl)
			}
		}
	}
	bound := x.letBound(ct, fr)
	evalInv := func(cl *Clause) string {
		sv, err := evalSpecFns(cl.node, x.frameEnv(st, fr), x.sigs, bound, fr.xsigs, fr.xsyms)
		if err != nil {
			if strings.Contains(err.Error(), "unknown identifier") && fr.isTop {
				x.addInapplicable(fmt.Sprintf("loop%d.init", k), cl.Tag, cl.Text, err.Error(), cl.Props)
				return "true"
			}
			x.fail("loop %d invariant %s of %s: %v", k, cl.Tag, fr.fn.Name(), err)
			return "true"
		}
		return sv.T
	}
	if isBack && x.probe != nil && x.probe.header == to && x.probe.sameFrame(fr) {
		// probing a pure loop: remember under which condition this iteration reached the back edge
		x.probe.arrivals = append(x.probe.arrivals, strings.Join(st.pc[x.probe.base:], "\x00"))
		for i, phi := range phis {
			if savedHas[i] {
				fr.env[phi] = savedEnv[i]
			} else {
				delete(fr.env, phi)
			}
		}
		fr.names = savedNames
		return nil
	}
	if isBack && ct != nil {
		// history sequences: name(i) is the ghost expression at the end of the iteration that started with $i == i
		for _, cl := range ct.Of("loopghost") {
			if cl.Loop != k {
				continue
			}
			lg, ok := st.lghost[cl.Name]
			pi, ok2 := fr.prevNames[to]["$i"].(TV)
			if !ok || !ok2 {
				x.fail("loop %d ghost %s of %s: needs a counted loop ($i)", k, cl.Name, fr.fn.Name())
				continue
			}
			sv, err := evalSpecFns(cl.node, x.frameEnv(st, fr), x.sigs, bound, fr.xsigs, fr.xsyms)
			if err != nil {
				if strings.Contains(err.Error(), "unknown identifier") && fr.isTop {
					x.addInapplicable(fmt.Sprintf("loop%d.ghost", k), cl.Name, cl.Text, err.Error(), cl.Props)
					continue
				}
				x.fail("loop %d ghost %s of %s: %v", k, cl.Name, fr.fn.Name(), err)
				continue
			}
			st.Assume(eq(app(lg.Sym, pi.T), sv.T))
		}
	}
	if isBack {
		for _, cl := range invs {
			x.addObl(fmt.Sprintf("loop%d.step", k), cl.Tag, cl.Text, st, evalInv(cl), cl.Props)
		}
		if ct != nil && fr.prevSt != nil && fr.prevSt[to] != nil {
			for _, cl := range ct.Of("loopstep") {
				if cl.Loop != k {
					continue
				}
				env := x.frameEnv(st, fr)
				env.prevSt, env.prevNames = fr.prevSt[to], fr.prevNames[to]
				sv, err := evalSpecFns(cl.node, env, x.sigs, bound, fr.xsigs, fr.xsyms)
				if err != nil {
					if strings.Contains(err.Error(), "unknown identifier") && fr.isTop {
						x.addInapplicable(fmt.Sprintf("loop%d.iter", k), cl.Tag, cl.Text, err.Error(), cl.Props)
						continue
					}
					x.fail("loop %d step %s of %s: %v", k, cl.Tag, fr.fn.Name(), err)
					continue
				}
				x.addObl(fmt.Sprintf("loop%d.iter", k), cl.Tag, cl.Text, st, sv.T, cl.Props)
			}
		}
		x.covers[fmt.Sprintf("loop%d.backedge", k)] = true
		for i, phi := range phis {
			if savedHas[i] {
				fr.env[phi] = savedEnv[i]
			} else {
				delete(fr.env, phi)
			}
		}
		fr.names = savedNames
		return nil
	}
	if ct != nil {
		for _, cl := range ct.Of("loopghost") {
			if cl.Loop == k {
				// a fresh sequence per entry of the loop (a loop entered twice has two histories)
				x.lgN++
				sym := fmt.Sprintf("lg!%s!%d", cl.Name, x.lgN)
				x.enc.DeclFun(sym, []string{"Int"}, cl.Sort)
				if st.lghost == nil {
					st.lghost = map[string]LGhost{}
				}
				st.lghost[cl.Name] = LGhost{Sym: sym, Sort: cl.Sort}
			}
		}
	}
	for _, cl := range invs {
		x.addObl(fmt.Sprintf("loop%d.init", k), cl.Tag, cl.Text, st, evalInv(cl), cl.Props)
	}
	// havoc everything the loop may modify
	pureLoop := x.havocLoop(st, fr, to, li)
	for _, phi := range phis {
		nv := x.havocValue(st, fr.env[phi], phi.Type(), "phi_"+phi.Comment)
		fr.env[phi] = nv
		x.bindPhiName(fr, phi, nv)
		if phi.Comment == "rangeindex" {
			// built-in fact of go/ssa's range lowering: the index starts at -1 and only grows
			if tv, ok := nv.(TV); ok {
				st.Assume(app(">=", tv.T, "(- 1)"))
				for _, in := range to.Instrs {
					if b, ok := in.(*ssa.BinOp); ok && b.Op == token.LSS {
						if y, ok := fr.env[b.Y]; ok {
							if yt, ok := y.(TV); ok {
								st.Assume(app("<", tv.T, yt.T)) // index < len(range operand)
							}
						}
					}
				}
			}
		}
	}
	for _, cl := range invs {
		st.Assume(evalInv(cl))
	}
	if len(invs) == 0 && pureLoop && x.probe == nil && os.Getenv("GOVC_NO_AUTOINV") == "" {
		x.autoInvariant(st, fr, from, to, nphi, phis, vals, li)
	}
	if fr.prevSt == nil {
		fr.prevSt, fr.prevNames = map[*ssa.BasicBlock]*State{}, map[*ssa.BasicBlock]map[string]Value{}
	}
	fr.prevSt[to], fr.prevNames[to] = st.Clone(), cloneNames(fr.names)
	fr.loops[to] = true
	return x.execFrom(st, fr, to, nphi, from)
}

// countingPhi: phi of an indexed loop `for i := 0; ...; i++` (starts at the constant 0 on the entry edge and is
// incremented by exactly 1 on every back edge); its value is the number of completed iterations, like $i of a range loop.
func countingPhi(phi *ssa.Phi) bool {
	if len(phi.Edges) < 2 {
		return false
	}
	zero, inc := 0, 0
	for _, e := range phi.Edges {
		switch v := e.(type) {
		case *ssa.Const:
			if v.Value != nil && v.Value.ExactString() == "0" {
				zero++
				continue
			}
			return false
		case *ssa.BinOp:
			if v.Op == token.ADD && v.X == ssa.Value(phi) {
				if c, ok := v.Y.(*ssa.Const); ok && c.Value != nil && c.Value.ExactString() == "1" {
					inc++
					continue
				}
			}
			return false
		default:
			return false
		}
	}
	return zero == 1 && inc >= 1
}

func (x *Exec) bindPhiName(fr *Frame, phi *ssa.Phi, v Value) {
	if phi.Comment != "rangeindex" && countingPhi(phi) {
		// an indexed loop: $i is the counter itself, unless the header also has a range index
		hasRange := false
		for _, in := range phi.Block().Instrs {
			if p, ok := in.(*ssa.Phi); ok && p.Comment == "rangeindex" {
				hasRange = true
			}
		}
		if tv, ok := v.(TV); ok && !hasRange {
			fr.names["$i"] = tv
			if li := x.loops(fr.fn); li != nil {
				if k, ok := li.ord[phi.Block()]; ok {
					fr.names[fmt.Sprintf("$i%d", k)] = tv
				}
			}
		}
	}
	if phi.Comment == "" {
		return
	}
	if phi.Comment == "rangeindex" {
		if tv, ok := v.(TV); ok {
			// $i: number of elements already processed (innermost range loop entered last);
			// $i<k>: the same for the range loop with ordinal k, so that an inner invariant can name the outer progress
			fr.names["$i"] = TV{T: app("+", tv.T, "1"), Ty: tv.Ty}
			if li := x.loops(fr.fn); li != nil {
				if k, ok := li.ord[phi.Block()]; ok {
					fr.names[fmt.Sprintf("$i%d", k)] = TV{T: app("+", tv.T, "1"), Ty: tv.Ty}
				}
			}
		}
		return
	}
	fr.names[phi.Comment] = v
}

func (x *Exec) letBound(ct *Contract, fr *Frame) map[string]SV {
	bound := map[string]SV{}
	if ct == nil {
		return bound
	}
	if fr.isTop {
		for k, v := range x.topLets {
			bound[k] = v
		}
	}
	return bound
}

func (x *Exec) havocValue(st *State, old Value, ty types.Type, hint string) Value {
	switch o := old.(type) {
	case TV:
		t := ty
		if o.Ty != nil {
			t = o.Ty
		}
		nv := x.freshTV(hint, t, st)
		nv.M = o.M
		return nv
	case EvV, ListV:
		return old
	}
	return old
}

// havocLoop over-approximates the effect of arbitrarily many iterations.
func (x *Exec) havocLoop(st *State, fr *Frame, header *ssa.BasicBlock, li *loopInfo) (pure bool) {
	cells := map[int]bool{}
	ghosts := map[string]bool{}
	evHandles := map[int]bool{}
	all := false
	x.dynCtxArgs = nil
	x.dynCommits = nil
	for b := range li.body[header] {
		for _, in := range b.Instrs {
			switch ins := in.(type) {
			case *ssa.Store:
				if c, ok := x.rootCell(fr, ins.Addr, li.body[header]); ok {
					cells[c] = true
				}
			case *ssa.MapUpdate:
				if v, ok := fr.env[ins.Map]; ok {
					if m, ok := v.(MapRef); ok {
						cells[m.Cell] = true
					}
				}
			case *ssa.Next:
				if v, ok := fr.env[ins.Iter]; ok {
					if it, ok := v.(MapIterV); ok && it.PosCell > 0 {
						cells[it.PosCell] = true
					}
				}
			case ssa.CallInstruction:
				cc := ins.Common()
				if b, ok := cc.Value.(*ssa.Builtin); ok && b.Name() == "delete" {
					if v, ok := fr.env[cc.Args[0]]; ok {
						if m, ok := v.(MapRef); ok {
							cells[m.Cell] = true
						}
					}
				}
				ws, unk := x.callWrites(cc, map[*ssa.Function]bool{})
				if cc.IsInvoke() && ws["$events"] {
					// a direct Emit* on an event manager: only the event list of its context handle becomes unknown
					if h, ok := x.evMgrHandle(fr, cc.Value); ok {
						evHandles[h] = true
						delete(ws, "$events")
					}
				}
				for n := range ws {
					ghosts[n] = true
				}
				if unk {
					all = true
				}
				for _, a := range cc.Args {
					if v, ok := fr.env[a]; ok {
						x.markReachable(st, v, cells)
					}
				}
				if cc.Value != nil {
					if v, ok := fr.env[cc.Value]; ok {
						x.markReachable(st, v, cells)
					}
				}
			case *ssa.MakeClosure:
				for _, bnd := range ins.Bindings {
					if v, ok := fr.env[bnd]; ok {
						x.markReachable(st, v, cells)
					}
				}
			}
		}
	}
	if os.Getenv("GOVC_DEBUG") != "" {
		fmt.Fprintf(os.Stderr, "havocLoop %s header=%d blocks=%d ghosts=%v all=%v cells=%v\n", fr.fn.Name(), header.Index, len(li.body[header]), ghosts, all, cells)
	}
	// a loop that writes nothing outside itself (a "check every element" loop)
	pure = len(cells) == 0 && len(ghosts) == 0 && !all && len(evHandles) == 0 && len(x.dynCtxArgs) == 0 && len(x.dynCommits) == 0
	for c := range cells {
		if old, ok := st.cells[c]; ok {
			switch cv := old.(type) {
			case TV:
				st.cells[c] = x.freshTV("loopcell", cv.Ty, st)
			case SliceRef:
				// variable re-pointed by append inside the loop: arbitrary slice value of its type afterwards
				if bt, ok := st.cells[cv.Cell].(TV); ok {
					st.cells[c] = x.freshTV("loopcell", bt.Ty, st)
				}
			}
		}
	}
	for h := range evHandles {
		x.store(st, h).EvOpaque = true
	}
	if all || ghosts["perm.admin"] {
		// bridge-hook notifications may be sent in the body: their number is arbitrary after the loop
		st.hookCount = x.enc.FreshConst("hookCount@loop", "Int")
		st.Assume(fmt.Sprintf("(>= %s 0)", st.hookCount))
	}
	if all {
		x.havocGhost(st, nil, true)
	} else if len(ghosts) > 0 {
		x.havocGhost(st, ghosts, false)
	}
	for _, a := range x.dynCtxArgs {
		// the context may be branched inside the loop (ctx.CacheContext()): follow the definition to a handle known here
		if h, ok := x.outerCtxHandle(fr, a, 0); ok {
			x.routerHavoc(st, h)
		} else {
			for h := range st.stores {
				x.routerHavoc(st, h)
			}
		}
	}
	if len(x.dynCtxArgs) > 0 {
		// a commit function called in the loop writes what the branched handle accumulated into its parent
		for _, cv := range x.dynCommits {
			if v, ok := fr.env[cv]; ok {
				if c, ok := v.(CommitV); ok {
					x.routerHavoc(st, c.Parent)
					continue
				}
			}
			if ex, ok := cv.(*ssa.Extract); ok {
				if call, ok := ex.Tuple.(*ssa.Call); ok && len(call.Call.Args) > 0 {
					if h, ok := x.outerCtxHandle(fr, call.Call.Args[0], 0); ok {
						x.routerHavoc(st, h)
						continue
					}
				}
			}
			for h := range st.stores {
				x.routerHavoc(st, h)
			}
		}
	}
	return pure
}

func (x *Exec) markReachable(st *State, v Value, cells map[int]bool) {
	switch p := v.(type) {
	case PtrV:
		if cells[p.Cell] {
			return
		}
		cells[p.Cell] = true
		if st != nil {
			// a captured variable that itself holds a closure: what that closure captured is reachable too
			switch cv := st.cells[p.Cell].(type) {
			case CloV:
				x.markReachable(st, cv, cells)
			case IfaceV:
				x.markReachable(st, cv.V, cells)
			}
		}
	case SliceRef:
		cells[p.Cell] = true
	case MapRef:
		cells[p.Cell] = true
	case ByteView:
		cells[p.Cell] = true
	case CloV:
		for _, f := range p.Free {
			x.markReachable(st, f, cells)
		}
	}
}

// rootCell finds the heap cell an address expression points into, if it was allocated outside the loop.
func (x *Exec) rootCell(fr *Frame, addr ssa.Value, body map[*ssa.BasicBlock]bool) (int, bool) {
	for {
		switch a := addr.(type) {
		case *ssa.FieldAddr:
			addr = a.X
			continue
		case *ssa.IndexAddr:
			addr = a.X
			continue
		case *ssa.Slice:
			addr = a.X
			continue
		}
		break
	}
	if in, ok := addr.(ssa.Instruction); ok && body[in.Block()] {
		if _, isAlloc := addr.(*ssa.Alloc); isAlloc {
			return 0, false // allocated inside the loop body: fresh every iteration
		}
	}
	if v, ok := fr.env[addr]; ok {
		switch p := v.(type) {
		case PtrV:
			return p.Cell, true
		case SliceRef:
			return p.Cell, true
		case ByteView:
			return p.Cell, true
		}
	}
	return 0, false
}

// callWrites computes (syntactically, transitively through repository code) the ghost cells a call may write.
func (x *Exec) callWrites(cc *ssa.CallCommon, seen map[*ssa.Function]bool) (map[string]bool, bool) {
	out := map[string]bool{}
	if cc.IsInvoke() {
		iface := lastSeg(namedPath(cc.Value.Type()))
		switch {
		case iface == "BankKeeper" && (strings.HasPrefix(cc.Method.Name(), "Send") || strings.HasPrefix(cc.Method.Name(), "Mint") || strings.HasPrefix(cc.Method.Name(), "Burn")):
			out["bank.bal"], out["bank.supply"] = true, true
		case iface == "BankKeeper" && cc.Method.Name() == "SetDenomMetaData":
			out["bank.meta"] = true
		case iface == "BankKeeper", iface == "Codec", iface == "Logger", iface == "PubKey", iface == "GasMeter", iface == "ValidatorI", iface == "FeeTx", iface == "Tx",
			iface == "HasValidateBasic", iface == "Msg", iface == "AnyUnpacker":
		case iface == "AccountKeeper" && (cc.Method.Name() == "SetAccount" || cc.Method.Name() == "NewAccount"):
			out["auth.acc"] = true
		case iface == "AccountKeeper", iface == "error":
		case iface == "BridgeHook", iface == "PermKeeper":
			out["perm.admin"] = true
		case iface == "ChannelKeeper":
		case iface == "EventManagerI":
			if strings.HasPrefix(cc.Method.Name(), "Emit") {
				out["$events"] = true
			}
		case iface == "OracleKeeper":
			out["oracle.price"] = true
		case iface == "ValidatorStore":
		default:
			// interfaces of other libraries (encoders, writers, keys, messages) do not reach module state;
			// only keeper-, hook-, router- and handler-like interfaces may write it
			if strings.HasSuffix(iface, "Keeper") || strings.HasSuffix(iface, "Hook") || strings.HasSuffix(iface, "Hooks") ||
				strings.HasSuffix(iface, "Router") || strings.HasSuffix(iface, "Handler") || strings.HasSuffix(iface, "Store") {
				return out, true
			}
		}
		return out, false
	}
	fn := cc.StaticCallee()
	if fn == nil {
		if _, ok := cc.Value.(*ssa.Builtin); ok {
			return out, false
		}
		if mc, ok := cc.Value.(*ssa.MakeClosure); ok {
			x.bindStaticClosure(mc)
			return x.fnWrites(mc.Fn.(*ssa.Function), seen)
		}
		// a callback held in a captured variable / parameter whose runtime value is known
		if v, ok := x.staticFnValue(cc.Value, 0); ok {
			switch f := v.(type) {
			case CloV:
				x.bindFree(f.Fn, f.Free)
				return x.fnWrites(f.Fn, seen)
			case IfaceV:
				if cv, ok := f.V.(CloV); ok {
					x.bindFree(cv.Fn, cv.Free)
					return x.fnWrites(cv.Fn, seen)
				}
			case FnV:
				return x.fnWrites(f.Fn, seen)
			}
		}
		// dynamic call (routed message handler, decoder, ante chain): its effect is confined to the context
		// handle it receives; recorded for the caller to havoc that handle
		for _, a := range cc.Args {
			if isCtxType(a.Type()) {
				x.dynCtxArgs = append(x.dynCtxArgs, a)
				return out, false
			}
		}
		if sig, ok := cc.Value.Type().Underlying().(*types.Signature); ok && sig.Params().Len() == 0 && sig.Results().Len() == 0 {
			// func(): only useful for its side effect. The write-back function of a CacheContext has this type;
			// recorded so that the caller havocs the parent handle it commits into
			x.dynCommits = append(x.dynCommits, cc.Value)
			return out, false
		}
		if sig, ok := cc.Value.Type().Underlying().(*types.Signature); ok && sig.Params().Len() <= 1 {
			// decoder-like pure function
			return out, false
		}
		return out, true
	}
	name := fnName(fn)
	if os.Getenv("GOVC_DEBUG") != "" {
		fmt.Fprintf(os.Stderr, "callWrites %s inRepo=%v blocks=%v\n", name, inRepo(fn), fn.Blocks != nil)
	}
	if strings.HasPrefix(name, "(cosmossdk.io/collections.") {
		m := fn.Name()
		if o := fn.Origin(); o != nil {
			m = o.Name()
		}
		if os.Getenv("GOVC_DEBUG") != "" {
			fmt.Fprintf(os.Stderr, "  coll method %q recv=%q\n", m, collFieldName(cc.Args[0]))
		}
		if m == "Set" || m == "Remove" || m == "Next" || m == "Clear" {
			if n := collFieldName(cc.Args[0]); n != "" {
				out[n] = true
				return out, false
			}
			return out, true
		}
		if m == "Walk" && len(cc.Args) >= 4 {
			if mc, ok := cc.Args[3].(*ssa.MakeClosure); ok {
				x.bindStaticClosure(mc)
				return x.fnWrites(mc.Fn.(*ssa.Function), seen)
			}
			if f, ok := cc.Args[3].(*ssa.Function); ok {
				return x.fnWrites(f, seen)
			}
			// a callback received as a parameter / captured variable whose value is known
			if v, ok := x.staticFnValue(cc.Args[3], 0); ok {
				switch f := v.(type) {
				case CloV:
					x.bindFree(f.Fn, f.Free)
					return x.fnWrites(f.Fn, seen)
				case FnV:
					return x.fnWrites(f.Fn, seen)
				}
			}
			return out, true
		}
		return out, false
	}
	if inRepo(fn) && fn.Blocks != nil {
		// function-valued arguments that are closure literals: remember them for the callee's analysis
		if x.freeBind == nil {
			x.freeBind = map[ssa.Value]Value{}
		}
		for i, a := range cc.Args {
			if i >= len(fn.Params) {
				break
			}
			if _, isFn := fn.Params[i].Type().Underlying().(*types.Signature); !isFn {
				continue
			}
			if v, ok := x.staticFnValue(a, 0); ok {
				x.freeBind[fn.Params[i]] = v
			}
		}
		return x.fnWrites(fn, seen)
	}
	return out, false
}

func (x *Exec) fnWrites(fn *ssa.Function, seen map[*ssa.Function]bool) (map[string]bool, bool) {
	out := map[string]bool{}
	if seen[fn] {
		return out, false
	}
	seen[fn] = true
	unk := false
	for _, b := range fn.Blocks {
		for _, in := range b.Instrs {
			if ci, ok := in.(ssa.CallInstruction); ok {
				ws, u := x.callWrites(ci.Common(), seen)
				for n := range ws {
					out[n] = true
				}
				unk = unk || u
			}
		}
	}
	for _, af := range fn.AnonFuncs {
		ws, u := x.fnWrites(af, seen)
		for n := range ws {
			out[n] = true
		}
		unk = unk || u
	}
	return out, unk
}

// collFieldName: the keeper field a collections receiver expression denotes.
func collFieldName(v ssa.Value) string {
	switch a := v.(type) {
	case *ssa.UnOp:
		return collFieldName(a.X)
	case *ssa.FieldAddr:
		st := deref(a.X.Type()).Underlying().(*types.Struct)
		return st.Field(a.Field).Name()
	case *ssa.Field:
		st := a.X.Type().Underlying().(*types.Struct)
		return st.Field(a.Field).Name()
	}
	return ""
}

// Iteration over a Go map: the keys present when the loop starts are visited exactly once each in an
// ARBITRARY order. The order is an uninterpreted bijection mkey : [0,mn) -> keys, so whatever is proved holds
// for every iteration order (this is what makes map-range loops order-insensitive by construction).
// In invariants: $it (entries visited so far), $mn, $mkey(t).
func (x *Exec) newMapIter(st *State, fr *Frame, m Value) Value {
	e := x.enc
	var arr string
	var mt *types.Map
	switch mm := m.(type) {
	case MapRef:
		arr = st.cells[mm.Cell].(TV).T
		mt = mm.Ty.Underlying().(*types.Map)
	case TV:
		arr = mm.T
		mt, _ = mm.Ty.Underlying().(*types.Map)
	case ObjV:
		mt = mm.Ty.Underlying().(*types.Map)
		arr = x.ghostGet(st, 0, gomapGhost(mm.Path), e.Sort(mm.Ty), ghostInfo{Arr: true, Opt: true, ValTy: mt.Elem(), KeyTy: mt.Key()})
	}
	if mt == nil {
		x.fail("range over %s", describe(m))
		return MapIterV{Map: m}
	}
	ks, vs := e.Sort(mt.Key()), e.Sort(mt.Elem())
	id := e.Fresh("m")
	mkey := e.DeclFun("mkey."+id, []string{"Int"}, ks)
	midx := e.DeclFun("midx."+id, []string{ks}, "Int")
	mn := e.DeclConst("mn."+id, "Int")
	optS := "(Opt " + vs + ")"
	st.Assume(and(app(">=", mn, "0"), app("<", mn, two63)))
	card := e.DeclFun("card."+sanitize(e.Sort(mt)), []string{e.Sort(mt)}, "Int")
	st.Assume(eq(mn, app(card, arr)))
	st.Assume(fmt.Sprintf("(forall ((t Int)) (! (=> (and (<= 0 t) (< t %s)) (and %s (= (%s (%s t)) t))) :pattern ((%s t))))", mn, isSomeT(app("select", arr, app(mkey, "t")), optS), midx, mkey, mkey))
	st.Assume(fmt.Sprintf("(forall ((k %s)) (! (=> %s (and (<= 0 (%s k)) (< (%s k) %s) (= (%s (%s k)) k))) :pattern ((%s k)) :pattern ((select %s k))))", ks, isSomeT(app("select", arr, "k"), optS), midx, midx, mn, mkey, midx, midx, arr))
	pos := x.newCell(st, TV{T: "0", Ty: tInt}, tInt)
	fr.names["$it"] = PtrV{Cell: pos}
	if fr.xsigs == nil {
		fr.xsigs, fr.xsyms = map[string]FunSig{}, map[string]string{}
	}
	fr.xsigs["$mkey"], fr.xsyms["$mkey"] = FunSig{Args: []string{"Int"}, Ret: ks}, mkey
	fr.xsigs["$midx"], fr.xsyms["$midx"] = FunSig{Args: []string{ks}, Ret: "Int"}, midx
	fr.names["$mn"] = TV{T: mn, Ty: tInt}
	x.assumed["A-MAPRANGE: ranging over a Go map visits exactly the keys present at the start, each once, in an arbitrary order"] = true
	return MapIterV{Map: m, M0: arr, ID: id, PosCell: pos, KS: ks, VS: vs}
}

func (x *Exec) nextIter(st *State, fr *Frame, ins *ssa.Next) {
	it, ok := x.val(fr, st, ins.Iter).(MapIterV)
	if !ok || it.ID == "" {
		x.fail("next on unsupported iterator")
		return
	}
	tup := ins.Type().(*types.Tuple)
	pos := st.cells[it.PosCell].(TV).T
	has := app("<", pos, "mn."+it.ID)
	key := app("mkey."+it.ID, pos)
	kt, vt := tup.At(1).Type(), tup.At(2).Type()
	var k, v Value
	k = TV{T: "0", Ty: tInt}
	if b, isB := kt.(*types.Basic); !isB || b.Kind() != types.Invalid {
		k = TV{T: key, Ty: kt}
		for _, f := range x.enc.TypeFacts(key, kt, 0) {
			st.Assume(implies(has, f))
		}
	}
	if b, isB := vt.(*types.Basic); !isB || b.Kind() != types.Invalid {
		v = TV{T: app("val", app("select", it.M0, key)), Ty: vt}
	}
	st.cells[it.PosCell] = TV{T: app("+", pos, "1"), Ty: tInt}
	fr.env[ins] = TupV{TV{T: has, Ty: tBool}, k, v}
}

func (x *Exec) symTypeAssert(st *State, fr *Frame, ins *ssa.TypeAssert, iv TV) {
	e := x.enc
	to := ins.AssertedType
	id := x.typeID(to)
	tag := app("itype", iv.T)
	isT := eq(tag, fmt.Sprint(id))
	if _, isIface := to.Underlying().(*types.Interface); isIface {
		f := e.DeclFun("implements."+sanitize(typeKey(to)), []string{"Int"}, "Bool")
		isT = app(f, tag)
	}
	var payload Value
	s := e.Sort(to)
	if _, isIface := to.Underlying().(*types.Interface); isIface {
		payload = TV{T: iv.T, Ty: to}
	} else {
		f := e.DeclFun("unbox."+sanitize(typeKey(to)), []string{"Iface"}, s)
		payload = TV{T: app(f, iv.T), Ty: to}
	}
	if ins.CommaOk {
		fr.env[ins] = TupV{payload, TV{T: isT, Ty: tBool}}
		return
	}
	// failing assertion panics
	st.Assume(isT)
	fr.env[ins] = payload
}

var typeIDs = map[string]int{}

func (x *Exec) typeID(t types.Type) int {
	k := typeKey(t)
	if id, ok := typeIDs[k]; ok {
		return id
	}
	id := len(typeIDs) + 1
	typeIDs[k] = id
	return id
}

// walk: Map.Walk(ctx, ranger, cb).
func (x *Exec) walk(c *CallCtx) []Outcome {
	st := c.st
	cb := c.args[3]
	var fn *ssa.Function
	var free []Value
	switch f := cb.(type) {
	case CloV:
		fn, free = f.Fn, f.Free
	case FnV:
		fn = f.Fn
	default:
		x.fail("Walk with unresolved callback %s", describe(cb))
		return nil
	}
	d, ok := x.coll(c.args[0])
	if !ok {
		x.fail("Walk on %s", describe(c.args[0]))
		return nil
	}
	h := handleOf(c.args[1])
	if wc := x.walkContract(c, d, h, fn, free); wc != nil {
		return wc
	}
	// no invariant: havoc what the callback may write
	cells := map[int]bool{}
	x.cellsWrittenBy(st, fn, free, cells, 0)
	ws, unk := x.fnWrites(fn, map[*ssa.Function]bool{})
	for cnum := range cells {
		if tv, ok := st.cells[cnum].(TV); ok {
			st.cells[cnum] = x.freshTV("walkcell", tv.Ty, st)
		}
	}
	x.havocGhost(st, ws, unk)
	x.warn("Map.Walk at %s without invariant: callback effects havocked", x.pos(c.instr.Pos()))
	err := x.freshTV("walkerr", tError, st)
	return c.ret(err)
}

func vtOrInt(t types.Type) types.Type {
	if b, ok := t.(*types.Basic); ok && b.Kind() == types.Invalid {
		return types.Typ[types.Int]
	}
	return t
}

// closureWrites: indices of the free variables a closure body may write through
// (stores rooted at the free variable, or the free variable escaping into a call).
func (x *Exec) closureWrites(fn *ssa.Function) map[int]bool {
	out := map[int]bool{}
	idx := map[ssa.Value]int{}
	for i, fv := range fn.FreeVars {
		idx[fv] = i
	}
	root := func(v ssa.Value) ssa.Value {
		for {
			switch a := v.(type) {
			case *ssa.FieldAddr:
				v = a.X
				continue
			case *ssa.IndexAddr:
				v = a.X
				continue
			}
			return v
		}
	}
	for _, b := range fn.Blocks {
		for _, in := range b.Instrs {
			switch ins := in.(type) {
			case *ssa.Store:
				if i, ok := idx[root(ins.Addr)]; ok {
					out[i] = true
				}
			case *ssa.MapUpdate:
				if i, ok := idx[ins.Map]; ok {
					out[i] = true
				}
			case ssa.CallInstruction:
				for _, a := range ins.Common().Args {
					if i, ok := idx[root(a)]; ok {
						if _, isPtr := a.Type().Underlying().(*types.Pointer); isPtr {
							out[i] = true
						}
					}
				}
			case *ssa.MakeClosure:
				inner := x.closureWrites(ins.Fn.(*ssa.Function))
				for j, bnd := range ins.Bindings {
					if inner[j] {
						if i, ok := idx[root(bnd)]; ok {
							out[i] = true
						}
					}
				}
			}
		}
	}
	return out
}

// staticFnValue resolves a function-typed SSA value to a known closure / function for the write analysis.
func (x *Exec) staticFnValue(v ssa.Value, depth int) (Value, bool) {
	if depth > 6 || v == nil {
		return nil, false
	}
	if b, ok := x.freeBind[v]; ok {
		return b, true
	}
	switch a := v.(type) {
	case *ssa.MakeClosure:
		x.bindStaticClosure(a)
		return FnV{Fn: a.Fn.(*ssa.Function)}, true
	case *ssa.Function:
		return FnV{Fn: a}, true
	case *ssa.UnOp:
		return x.staticFnValue(a.X, depth+1)
	case *ssa.Alloc:
		if refs := a.Referrers(); refs != nil {
			for _, r := range *refs {
				if st, ok := r.(*ssa.Store); ok && st.Addr == a {
					return x.staticFnValue(st.Val, depth+1)
				}
			}
		}
	}
	return nil, false
}

// bindStaticClosure propagates known function values into the captured variables of a closure literal.
func (x *Exec) bindStaticClosure(mc *ssa.MakeClosure) {
	fn := mc.Fn.(*ssa.Function)
	if x.freeBind == nil {
		x.freeBind = map[ssa.Value]Value{}
	}
	for i, b := range mc.Bindings {
		if i >= len(fn.FreeVars) {
			break
		}
		if _, isFn := deref(fn.FreeVars[i].Type()).Underlying().(*types.Signature); !isFn {
			continue
		}
		if v, ok := x.staticFnValue(b, 0); ok {
			x.freeBind[fn.FreeVars[i]] = v
		}
	}
}

func derefValue(v ssa.Value) ssa.Value {
	if u, ok := v.(*ssa.UnOp); ok {
		return u.X
	}
	return v
}

// bindFree records the runtime values of a closure's captured variables for the static write analysis.
func (x *Exec) bindFree(fn *ssa.Function, free []Value) {
	if x.freeBind == nil {
		x.freeBind = map[ssa.Value]Value{}
	}
	for i, fv := range fn.FreeVars {
		if i >= len(free) {
			continue
		}
		v := free[i]
		if p, ok := v.(PtrV); ok && x.bindState != nil && len(p.Path) == 0 {
			if cv, ok := x.bindState.cells[p.Cell]; ok {
				v = cv
			}
		}
		x.freeBind[fv] = v
	}
}

// cellsWrittenBy marks the heap cells a closure may write when called, following callbacks that are held in
// its captured variables (their runtime values are known) and closures it creates over them.
func (x *Exec) cellsWrittenBy(st *State, fn *ssa.Function, free []Value, cells map[int]bool, depth int) {
	if depth > 8 || fn == nil || fn.Blocks == nil {
		return
	}
	idx := map[ssa.Value]int{}
	for i, fv := range fn.FreeVars {
		idx[fv] = i
	}
	root := func(v ssa.Value) ssa.Value {
		for {
			switch a := v.(type) {
			case *ssa.FieldAddr:
				v = a.X
				continue
			case *ssa.IndexAddr:
				v = a.X
				continue
			case *ssa.UnOp:
				v = a.X
				continue
			}
			return v
		}
	}
	freeVal := func(v ssa.Value) (Value, bool) {
		i, ok := idx[root(v)]
		if !ok || i >= len(free) {
			return nil, false
		}
		fv := free[i]
		if p, ok := fv.(PtrV); ok && len(p.Path) == 0 {
			if cv, ok := st.cells[p.Cell]; ok {
				if _, isTV := cv.(TV); !isTV {
					return cv, true
				}
			}
		}
		return fv, true
	}
	for _, b := range fn.Blocks {
		for _, in := range b.Instrs {
			switch ins := in.(type) {
			case *ssa.Store:
				if i, ok := idx[root(ins.Addr)]; ok && i < len(free) {
					x.markReachable(st, free[i], cells)
				}
			case *ssa.MapUpdate:
				if i, ok := idx[root(ins.Map)]; ok && i < len(free) {
					x.markReachable(st, free[i], cells)
				}
			case *ssa.MakeClosure:
				inner := ins.Fn.(*ssa.Function)
				var ifree []Value
				for _, bnd := range ins.Bindings {
					if i, ok := idx[root(bnd)]; ok && i < len(free) {
						ifree = append(ifree, free[i])
					} else {
						ifree = append(ifree, nil)
					}
				}
				x.cellsWrittenBy(st, inner, ifree, cells, depth+1)
			case ssa.CallInstruction:
				cc := ins.Common()
				if !cc.IsInvoke() {
					if _, isStatic := cc.Value.(*ssa.Function); !isStatic {
						if _, isB := cc.Value.(*ssa.Builtin); !isB {
							// dynamic call: a callback held in a captured variable
							if v, ok := freeVal(cc.Value); ok {
								switch f := v.(type) {
								case CloV:
									x.cellsWrittenBy(st, f.Fn, f.Free, cells, depth+1)
								case IfaceV:
									if cv, ok := f.V.(CloV); ok {
										x.cellsWrittenBy(st, cv.Fn, cv.Free, cells, depth+1)
									}
								}
							}
						}
					} else if callee := cc.StaticCallee(); callee != nil && inRepo(callee) && callee.Blocks != nil {
						// a repository function receiving our captured callbacks / pointers: follow closure arguments
						for _, a := range cc.Args {
							if v, ok := freeVal(a); ok {
								switch f := v.(type) {
								case CloV:
									x.cellsWrittenBy(st, f.Fn, f.Free, cells, depth+1)
								case PtrV:
									if _, isPtr := a.Type().Underlying().(*types.Pointer); isPtr {
										x.markReachable(st, f, cells)
									}
								}
							}
							if mc, ok := a.(*ssa.MakeClosure); ok {
								inner := mc.Fn.(*ssa.Function)
								var ifree []Value
								for _, bnd := range mc.Bindings {
									if i, ok := idx[root(bnd)]; ok && i < len(free) {
										ifree = append(ifree, free[i])
									} else {
										ifree = append(ifree, nil)
									}
								}
								x.cellsWrittenBy(st, inner, ifree, cells, depth+1)
							}
						}
					}
				}
				for _, a := range cc.Args {
					if i, ok := idx[root(a)]; ok && i < len(free) {
						if _, isPtr := a.Type().Underlying().(*types.Pointer); isPtr {
							x.markReachable(st, free[i], cells)
						}
					}
				}
			}
		}
	}
}

// outerCtxHandle resolves a context value to the store handle of the nearest enclosing context known in the frame:
// contexts derived inside a loop body (CacheContext, With* setters) are followed back to their receiver.
// evMgrHandle: the context handle an event manager value belongs to (known value, or ctx.EventManager() computed in the loop).
func (x *Exec) evMgrHandle(fr *Frame, v ssa.Value) (int, bool) {
	if ev, ok := fr.env[v]; ok {
		if o, ok := ev.(ObjV); ok && strings.HasPrefix(o.Path, "evmgr@") {
			h := 0
			fmt.Sscanf(o.Path, "evmgr@%d", &h)
			return h, true
		}
		return 0, false
	}
	if call, ok := v.(*ssa.Call); ok && len(call.Call.Args) > 0 && isCtxType(call.Call.Args[0].Type()) {
		return x.outerCtxHandle(fr, call.Call.Args[0], 0)
	}
	return 0, false
}

func (x *Exec) outerCtxHandle(fr *Frame, v ssa.Value, depth int) (int, bool) {
	if ev, ok := fr.env[v]; ok {
		if cv, ok := ev.(CtxV); ok {
			return cv.H, true
		}
	}
	if depth > 8 {
		return 0, false
	}
	switch d := v.(type) {
	case *ssa.Extract:
		if call, ok := d.Tuple.(*ssa.Call); ok && len(call.Call.Args) > 0 {
			return x.outerCtxHandle(fr, call.Call.Args[0], depth+1)
		}
	case *ssa.Call:
		if len(d.Call.Args) > 0 && isCtxType(d.Call.Args[0].Type()) {
			return x.outerCtxHandle(fr, d.Call.Args[0], depth+1)
		}
	case *ssa.MakeInterface:
		return x.outerCtxHandle(fr, d.X, depth+1)
	case *ssa.ChangeInterface:
		return x.outerCtxHandle(fr, d.X, depth+1)
	case *ssa.UnOp:
		return x.outerCtxHandle(fr, d.X, depth+1)
	}
	return 0, false
}

// probeInfo: state of the probe run that derives the invariant of a pure "check every element" loop.
func (p *probeInfo) sameFrame(fr *Frame) bool { return p.fr == fr || (p.fr.fn == fr.fn && p.fr.depth == fr.depth) }

type probeInfo struct {
	header   *ssa.BasicBlock
	fr       *Frame
	base     int // length of the path condition at the loop header
	arrivals []string
	body     map[*ssa.BasicBlock]bool
}

// autoInvariant: a loop without a contract invariant that writes nothing outside itself and whose only loop-carried value is its
// counter. Every completed iteration took a path from the header to the back edge; the path conditions of those paths, as a
// function of the counter, therefore hold for every earlier counter value:
//     forall j :: first <= j < current  ==>  exists (values made up in that iteration) :: cont(j)
// The body is run once in probe mode to collect cont; obligations raised during the probe are dropped (they are raised again by the
// real run). This is what lets a checking loop be moved into a helper, renamed or restructured without a hand-written invariant.
func (x *Exec) autoInvariant(st *State, fr *Frame, from, to *ssa.BasicBlock, nphi int, phis []*ssa.Phi, entryVals []Value, li *loopInfo) {
	if os.Getenv("GOVC_DEBUG") != "" {
		fmt.Fprintf(os.Stderr, "autoInvariant %s phis=%d\n", fr.fn.Name(), len(phis))
	}
	if len(phis) != 1 {
		return
	}
	phi := phis[0]
	if phi.Comment != "rangeindex" && !countingPhi(phi) {
		return
	}
	cur, ok := fr.env[phi].(TV)
	first, ok2 := entryVals[0].(TV)
	if !ok || !ok2 || !strings.Contains(cur.T, "!") {
		return
	}
	e := x.enc
	probeSt := st.Clone()
	nObl, nDecl := len(x.obls), len(e.decls)
	savedUnv, savedPaths := x.unverified, x.paths
	savedLoops := fr.loops[to]
	savedEnvPhi, hadPhi := fr.env[phi]
	savedNames := cloneNames(fr.names)
	x.probe = &probeInfo{header: to, fr: fr, base: len(probeSt.pc), body: li.body[to]}
	fr.loops[to] = true
	func() {
		defer func() {
			if r := recover(); r != nil {
				x.probe.arrivals = nil
			}
		}()
		x.execFrom(probeSt, fr, to, nphi, from)
	}()
	pr := x.probe
	x.probe = nil
	failed := x.unverified != savedUnv
	x.obls, x.unverified, x.paths = x.obls[:nObl], savedUnv, savedPaths
	fr.loops[to] = savedLoops
	if hadPhi {
		fr.env[phi] = savedEnvPhi
	}
	fr.names = savedNames
	if os.Getenv("GOVC_DEBUG") != "" {
		fmt.Fprintf(os.Stderr, "autoInvariant %s failed=%v arrivals=%d unverified=%q\n", fr.fn.Name(), failed, len(pr.arrivals), x.unverified)
	}
	if failed || len(pr.arrivals) == 0 {
		return
	}
	// values made up during the iteration (results of calls modelled as fresh constants) are existentially bound; one that is
	// pinned by an equation on the path (err == nil ...) is eliminated by substitution, which keeps the fact usable for the solvers
	declRe := regexp.MustCompile(`^\(declare-const (\S+) (.+)\)$`)
	type exVar struct{ name, sort string }
	var made []exVar
	for _, d := range e.decls[nDecl:] {
		if m := declRe.FindStringSubmatch(d); m != nil {
			made = append(made, exVar{m[1], m[2]})
		}
	}
	var disj []string
	exNeeded := map[string]string{}
	for _, a := range pr.arrivals {
		conj := strings.Split(a, "\x00")
		for _, v := range made {
			for i, c := range conj {
				t := ""
				if strings.HasPrefix(c, "(= "+v.name+" ") && strings.HasSuffix(c, ")") {
					t = c[len("(= "+v.name+" ") : len(c)-1]
				} else if strings.HasPrefix(c, "(= ") && strings.HasSuffix(c, " "+v.name+")") {
					t = c[len("(= ") : len(c)-len(" "+v.name+")")]
				}
				if t == "" || containsToken(t, v.name) || len(splitTop(t)) != 1 && strings.HasPrefix(t, "(") && false {
					continue
				}
				if strings.Count(t, "(") != strings.Count(t, ")") {
					continue
				}
				conj = append(conj[:i:i], conj[i+1:]...)
				for k := range conj {
					conj[k] = replaceToken(conj[k], v.name, t)
				}
				break
			}
		}
		d := and(conj...)
		for _, v := range made {
			if containsToken(d, v.name) {
				exNeeded[v.name] = v.sort
			}
		}
		disj = append(disj, d)
	}
	cont := or(disj...)
	var ex []string
	for _, v := range made {
		if s, ok := exNeeded[v.name]; ok {
			ex = append(ex, fmt.Sprintf("(%s %s)", v.name, s))
		}
	}
	// a range loop works with counter+1: quantify over that element index, so that the solvers can match a[k] directly
	// (first <= counter < current < 2^63, so the addition does not wrap)
	shifted := fmt.Sprintf("(wrap.i64 (+ %s 1))", cur.T)
	var body, lo, hi string
	if phi.Comment == "rangeindex" && strings.Contains(cont, shifted) {
		body = strings.ReplaceAll(cont, shifted, "aj!")
		body = replaceToken(body, cur.T, "(- aj! 1)")
		lo, hi = app("+", first.T, "1"), app("+", cur.T, "1")
	} else {
		body = replaceToken(cont, cur.T, "aj!")
		lo, hi = first.T, cur.T
	}
	if len(ex) > 0 {
		body = fmt.Sprintf("(exists (%s) %s)", strings.Join(ex, " "), body)
	}
	st.Assume(fmt.Sprintf("(forall ((aj! Int)) (=> (and (<= %s aj!) (< aj! %s)) %s))", lo, hi, body))
	x.warn("loop at %s: invariant derived automatically (pure checking loop)", x.pos(phi.Pos()))
}

func isTokChar(c byte) bool {
	return c == '_' || c == '!' || c == '.' || c == '$' || c == '@' || c == '|' || (c >= '0' && c <= '9') || (c >= 'a' && c <= 'z') || (c >= 'A' && c <= 'Z')
}

func containsToken(s, tok string) bool { return replaceToken(s, tok, tok+"#") != s }

// replaceToken replaces whole-symbol occurrences of tok in an S-expression text.
func replaceToken(s, tok, by string) string {
	var b strings.Builder
	for i := 0; i < len(s); {
		if strings.HasPrefix(s[i:], tok) && (i == 0 || !isTokChar(s[i-1])) && (i+len(tok) == len(s) || !isTokChar(s[i+len(tok)])) {
			b.WriteString(by)
			i += len(tok)
			continue
		}
		b.WriteByte(s[i])
		i++
	}
	return b.String()
}
