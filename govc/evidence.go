package main

import (
	"encoding/json"
	"fmt"
	"os"
	"path/filepath"
	"sort"
	"strings"
)

type LemmaResult struct {
	Name    string
	File    string
	OK      bool
	Vacuous bool
	Result  string
	Solver  string
	TimeS   float64
	Output  string
}

// runLemmas discharges the lemma files of a property. A lemma file is a complete SMT-LIB script
// whose (single) check-sat must answer unsat; its assumptions alone (goal removed) must be sat.
// checkLemmaUses verifies the "; uses <contract key> <tag> :: <clause text>" lines of a lemma file against the
// contract files: a lemma is a statement over contract clauses, so the clauses it transcribes must still exist verbatim.
func checkLemmaUses(db *ContractDB, file, text string) []*LemmaResult {
	var out []*LemmaResult
	norm := func(s string) string { return strings.Join(strings.Fields(s), " ") }
	for _, line := range strings.Split(text, "\n") {
		line = strings.TrimSpace(line)
		if !strings.HasPrefix(line, "; uses ") {
			continue
		}
		rest := strings.TrimSpace(line[len("; uses "):])
		i := strings.Index(rest, " :: ")
		if i < 0 {
			continue
		}
		head := strings.Fields(rest[:i])
		if len(head) != 2 {
			continue
		}
		key, tag, want := head[0], head[1], norm(rest[i+4:])
		lr := &LemmaResult{Name: "uses." + key + "." + tag, File: file, Result: "error"}
		if ct := db.ByKey[key]; ct != nil {
			for _, cl := range ct.Clauses {
				if cl.Tag == tag && norm(cl.Text) == want {
					lr.OK, lr.Result, lr.Solver = true, "unsat", "text-match"
				}
			}
		}
		if !lr.OK {
			lr.Output = "the contract clause transcribed by this lemma no longer exists verbatim: " + key + " " + tag
		}
		out = append(out, lr)
	}
	return out
}

var lemmaDB *ContractDB

func runLemmas(dir, prop string, cfg *PropConfig, timeoutS int) []*LemmaResult {
	var out []*LemmaResult
	for _, pat := range cfg.Lemmas {
		files, _ := filepath.Glob(filepath.Join(verifDir, "spec", pat))
		sort.Strings(files)
		for _, f := range files {
			out = append(out, runLemmaFile(dir, prop, f, timeoutS)...)
		}
	}
	return out
}

// A lemma file contains: common declarations, then blocks
//   ; lemma <name>
//   (push) (assert ...)* (assert (not goal)) (check-sat) (pop)
// Blocks are split textually so each lemma is an independent query.
func runLemmaFile(dir, prop, file string, timeoutS int) []*LemmaResult {
	data, err := os.ReadFile(file)
	if err != nil {
		return []*LemmaResult{{Name: file, Result: "error", Output: err.Error()}}
	}
	text := string(data)
	var pre []*LemmaResult
	if lemmaDB != nil {
		for _, u := range checkLemmaUses(lemmaDB, file, text) {
			u.Name = prop + ".lemma." + u.Name
			pre = append(pre, u)
		}
	}
	parts := strings.Split(text, "; lemma ")
	common := parts[0]
	if !strings.Contains(common, "(set-logic") {
		common = basePrelude + common
	}
	out := pre
	for _, p := range parts[1:] {
		nl := strings.Index(p, "\n")
		name := strings.TrimSpace(p[:nl])
		body := p[nl+1:]
		lr := &LemmaResult{Name: fmt.Sprintf("%s.lemma.%s", prop, name), File: file}
		// goal marker: the last (assert (not ...)) preceded by "; goal"
		gi := strings.Index(body, "; goal")
		if gi < 0 {
			lr.Result = "error"
			lr.Output = "lemma block without '; goal' marker"
			out = append(out, lr)
			continue
		}
		assumptions := body[:gi]
		goal := body[gi:]
		q := common + assumptions + goal + "\n(check-sat)\n"
		qr := solveText(dir, lr.Name, q, timeoutS)
		lr.Result, lr.Solver, lr.TimeS, lr.Output = qr.Result, qr.Solver, qr.TimeS, qr.Model
		if qr.Result == "unsat" {
			// vacuity twin: assumptions alone must not be unsat
			v := solveText(dir, lr.Name+".vacuity", common+assumptions+"\n(check-sat)\n", timeoutS)
			if v.Result == "unsat" {
				lr.Vacuous = true
			} else {
				lr.OK = true
			}
		}
		out = append(out, lr)
	}
	return out
}

func solveText(dir, name, text string, timeoutS int) QueryResult {
	// reuse Solve's racing by passing the full text as header with a trivial goal
	return solveRaw(dir, name, text, timeoutS)
}

func writeLemmaReplay(prop string, l *LemmaResult) string {
	dir := filepath.Join(outDir(), "replay")
	os.MkdirAll(dir, 0o755)
	p := filepath.Join(dir, sanitize(l.Name)+".json")
	data, _ := json.MarshalIndent(map[string]interface{}{
		"property": prop, "obligation": l.Name, "kind": "lemma", "file": l.File, "solver_result": l.Result, "solver_output": trunc(l.Output, 4000),
		"confirmed_on_real_code": false, "note": "a lemma over contracts/spec functions failed; no program input exists for a lemma",
	}, "", " ")
	os.WriteFile(p, data, 0o644)
	return p
}

var optDoc = map[string]string{
	"reclaim_succeeds_if_funded": "A-BANK-LIVE: taking back and burning the coins minted a moment ago (SendCoinsFromAccountToModule, BurnCoins) fails only when the balance does not cover the amount",
	"send_succeeds_if_funded":    "A-BANK-LIVE: BankKeeper.SendCoins of one valid coin fails only when the sender's balance does not cover the amount (no send restriction rejects it); used by the completeness clause 'every committed unclaimed withdrawal is claimable'",
}

func writeEvidence(path, prop, tier string, cfg *PropConfig, reps []*FuncReport, lemmas []*LemmaResult, res *Summary) {
	trusted := map[string]bool{}
	var funcs []map[string]interface{}
	var warnings []string
	var assumedContracts []string
	for _, r := range reps {
		funcs = append(funcs, map[string]interface{}{"func": r.Key, "src_sha256": r.SrcHash, "contract_sha256": r.CtHash, "paths": r.Paths,
			"obligation_queries": len(r.Obls), "callee_contracts_used": r.Modular, "inlined_callees": r.Inlined, "unverified": r.Unverified})
		for _, a := range r.Assumed {
			trusted["assumed contract: "+a+" — "+intrinsicDoc[a]] = true
			assumedContracts = append(assumedContracts, a)
		}
		for _, w := range r.Warnings {
			warnings = append(warnings, r.Key+": "+w)
		}
		for _, o := range r.Opts {
			trusted["contract option "+o+" on "+r.Key+" — "+optDoc[o]] = true
		}
	}
	for _, a := range []string{"A-TX: a message whose handler errors or panics leaves no state behind (baseapp branch/discard)",
		"A-STORE: KV-store operations do not fail other than ErrNotFound; codecs round-trip stored values",
		"A-SSA: x/tools go/ssa lowers Go faithfully; z3/cvc5 are sound",
		"A-INT: sized integer arithmetic is modelled exactly (wrap-around) on mathematical integers; math.Int is unbounded"} {
		trusted[a] = true
	}
	for _, a := range cfg.Assumptions {
		trusted[a] = true
	}
	var tb []string
	for k := range trusted {
		tb = append(tb, k)
	}
	sort.Strings(tb)
	var failed []map[string]interface{}
	for _, g := range res.Failed {
		failed = append(failed, map[string]interface{}{"name": g.Name, "clause": g.Clause, "status": g.Status()})
	}
	var lem []map[string]interface{}
	for _, l := range lemmas {
		lem = append(lem, map[string]interface{}{"name": l.Name, "result": l.Result, "solver": l.Solver, "time_s": l.TimeS, "ok": l.OK})
	}
	level := cfg.Level
	if level == "" {
		level = "proof"
	}
	cov := map[string]interface{}{
		"obligations": res.Obligations, "discharged": res.Discharged, "queries": res.Queries,
		"checker_cmd": fmt.Sprintf("./check %s --tier %s", prop, tier), "trusted_base": tb,
		"functions_under_contract": funcs, "by_backend": res.ByBackend, "solver_time_s": res.SolverTime,
		"known_findings_hit": res.KnownHit, "failed": failed, "lemmas": lem, "samples": res.Samples,
		"not_decided": cfg.NotDecided, "engine_warnings": warnings, "engine_errors": res.EngineErrors,
		"explanation": "contract-based deductive verification: weakest-precondition style symbolic execution of go/ssa of the functions listed, callees replaced by contracts, loops by invariants; each obligation raced on z3 4.8.12 / z3 5.1.0 / cvc5 1.0",
	}
	retried := []string{}
	for _, r := range reps {
		for _, o := range r.Obls {
			if o.Retried {
				retried = append(retried, fmt.Sprintf("%s -> %s", o.Name, o.Result))
			}
		}
	}
	cov["second_pass"] = map[string]interface{}{"rule": "an obligation no solver answered and at least one solver timed out on is tried once more with three times the time budget, two at a time (load robustness)", "obligations": retried}
	vac := map[string]int{"checked": 0, "satisfiable": 0, "inconclusive_within_3s": 0, "contradictory": 0}
	for _, r := range reps {
		for _, o := range r.Obls {
			if o.Kind != "vacuity" {
				continue
			}
			vac["checked"]++
			switch o.Result {
			case "sat":
				vac["satisfiable"]++
			case "unsat":
				vac["contradictory"]++
			default:
				vac["inconclusive_within_3s"]++
			}
		}
	}
	cov["vacuity_guards"] = vac
	cov["bounded"] = []string{}
	cov["bounded_note"] = "no obligation of this check is bounded: loops are cut with invariants / step relations, Map.Walk and Go map ranges are modelled for an arbitrary number of entries"
	for k, v := range res.Extras {
		cov[k] = v
	}
	ev := map[string]interface{}{
		"property_id": prop, "tier": tier, "seed": seedFromEnv(), "level": level, "coverage": cov,
		"assumptions": tb, "wall_s": res.WallS, "violations": res.Violations,
	}
	data, _ := json.MarshalIndent(ev, "", " ")
	os.WriteFile(path, data, 0o644)
}
