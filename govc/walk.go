package main

import "golang.org/x/tools/go/ssa"

func (x *Exec) walkWithInvariant(c *CallCtx, d collDesc, h int, fn *ssa.Function, free []Value) []Outcome {
	return nil
}
