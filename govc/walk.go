package main

// Map.Walk(ctx, ranger, callback) desugared to a loop over the abstract ordered entry sequence of
// the range, cut with "walk <k> invariant" clauses of the function under verification.
//
// For walk number k (k-th Walk executed on the path) the following symbols are available in the
// invariant:   $i      number of entries already visited
//              $n      number of entries in the range
//              $key(t) key of the t-th visited entry (0 <= t < $n)
// Assumed (A-COLL): the visited keys are exactly the present keys of the range, each once, in key
// order (descending if requested).

import (
	"fmt"
	"go/types"
	"strings"

	"golang.org/x/tools/go/ssa"
)

func (x *Exec) walkInvs(k int) []*Clause {
	if x.topC == nil {
		return nil
	}
	var out []*Clause
	for _, cl := range x.topC.Of("walkinv") {
		if cl.Loop == k {
			out = append(out, cl)
		}
	}
	return out
}

func (x *Exec) walkWithInvariant(c *CallCtx, d collDesc, h int, fn *ssa.Function, free []Value) []Outcome {
	st := c.st
	k := st.walks
	st.walks++
	invs := x.walkInvs(k)
	if len(invs) == 0 {
		return nil
	}
	e := x.enc
	x.assumed["A-COLL: Map.Walk visits exactly the present keys of the range, each once, in key order"] = true
	ks := e.Sort(d.keyTy)
	vs := e.Sort(d.valTy)
	id := e.Fresh("w")
	wkey := e.DeclFun("wkey."+id, []string{"Int"}, ks)
	widx := e.DeclFun("widx."+id, []string{ks}, "Int")
	wn := e.DeclConst("wn."+id, "Int")
	m0 := x.ghostGet(st, h, d.name, d.sort, d.gi)
	optS := "(Opt " + vs + ")"
	// range membership and order
	var rng RangeV
	rv := c.args[2]
	if iv, ok := rv.(IfaceV); ok {
		rv = iv.V
	}
	if r, ok := rv.(RangeV); ok {
		rng = r
	} else if !isNilConst(rv) {
		if tv, ok := rv.(TV); !ok || tv.T != "iface_nil" {
			x.fail("Walk with unsupported ranger %s", describe(rv))
			return nil
		}
	}
	isPair := strings.HasPrefix(ks, "(Pair")
	cmpLT := func(a, b, sort string) string {
		if sort == "Int" {
			return app("<", a, b)
		}
		return app("<", x.bcmpDecl(a, b), "0")
	}
	k1Sort, k2Sort := "Int", "Int"
	if isPair {
		if n, ok := types.Unalias(d.keyTy).(*types.Named); ok && n.TypeArgs() != nil && n.TypeArgs().Len() == 2 {
			k1Sort, k2Sort = e.Sort(n.TypeArgs().At(0)), e.Sort(n.TypeArgs().At(1))
		}
	}
	inRange := func(key string) string {
		conj := []string{"true"}
		if rng.Prefix != "" {
			conj = append(conj, eq(app("fst", key), rng.Prefix))
		}
		if rng.Until != "" {
			conj = append(conj, not(cmpLT(rng.Until, app("fst", key), k1Sort)))
		}
		comp, cs := key, ks
		if isPair {
			comp, cs = app("snd", key), k2Sort
		}
		if isPair && rng.KeyBounds {
			// whole-key bounds on a pair key: lexicographic comparison
			lexLT := func(a, b string) string {
				fa, fb := app("fst", a), app("fst", b)
				return or(cmpLT(fa, fb, k1Sort), and(eq(fa, fb), cmpLT(app("snd", a), app("snd", b), k2Sort)))
			}
			if rng.Lo != "" {
				if rng.LoIncl {
					conj = append(conj, not(lexLT(key, rng.Lo)))
				} else {
					conj = append(conj, lexLT(rng.Lo, key))
				}
			}
			if rng.Hi != "" {
				if rng.HiIncl {
					conj = append(conj, not(lexLT(rng.Hi, key)))
				} else {
					conj = append(conj, lexLT(key, rng.Hi))
				}
			}
			return and(conj...)
		}
		if rng.Lo != "" {
			if rng.LoIncl {
				conj = append(conj, not(cmpLT(comp, rng.Lo, cs)))
			} else {
				conj = append(conj, cmpLT(rng.Lo, comp, cs))
			}
		}
		if rng.Hi != "" {
			if rng.HiIncl {
				conj = append(conj, not(cmpLT(rng.Hi, comp, cs)))
			} else {
				conj = append(conj, cmpLT(comp, rng.Hi, cs))
			}
		}
		return and(conj...)
	}
	lt := func(a, b string) string {
		switch {
		case isPair && rng.Prefix != "":
			// within a prefix range the order is that of the second component
			return cmpLT(app("snd", a), app("snd", b), k2Sort)
		case isPair:
			// key order of a pair key: lexicographic
			fa, fb := app("fst", a), app("fst", b)
			return or(cmpLT(fa, fb, k1Sort), and(eq(fa, fb), cmpLT(app("snd", a), app("snd", b), k2Sort)))
		case ks == "Int":
			return app("<", a, b)
		default:
			return app("<", x.bcmpDecl(a, b), "0")
		}
	}
	st.Assume(and(app(">=", wn, "0"), app("<", wn, two63)))
	if rng.whole() {
		// the number of entries of a whole-map walk is the cardinality of the map
		card := e.DeclFun("card."+sanitize(d.sort), []string{d.sort}, "Int")
		st.Assume(eq(wn, app(card, m0)))
	}
	keyFacts := "true"
	if strings.HasPrefix(ks, "(Pair") {
		// stored keys are well-formed values of their Go types (e.g. uint64 components are in range)
		var fs []string
		if n, ok := types.Unalias(d.keyTy).(*types.Named); ok && n.TypeArgs() != nil && n.TypeArgs().Len() == 2 {
			fs = append(fs, e.TypeFacts(app("fst", app(wkey, "t")), n.TypeArgs().At(0), 1)...)
			fs = append(fs, e.TypeFacts(app("snd", app(wkey, "t")), n.TypeArgs().At(1), 1)...)
		}
		keyFacts = and(fs...)
	} else {
		keyFacts = and(e.TypeFacts(app(wkey, "t"), d.keyTy, 1)...)
	}
	st.Assume(fmt.Sprintf("(forall ((t Int)) (! (=> (and (<= 0 t) (< t %s)) (and %s %s %s)) :pattern ((%s t))))", wn,
		isSomeT(app("select", m0, app(wkey, "t")), optS), inRange(app(wkey, "t")), keyFacts, wkey))
	st.Assume(fmt.Sprintf("(forall ((k %s)) (! (=> (and %s %s) (and (<= 0 (%s k)) (< (%s k) %s) (= (%s (%s k)) k))) :pattern ((%s k)) :pattern ((select %s k))))", ks,
		isSomeT(app("select", m0, "k"), optS), inRange("k"), widx, widx, wn, wkey, widx, widx, m0))
	st.Assume(fmt.Sprintf("(forall ((t Int)) (! (=> (and (<= 0 t) (< t %s)) (= (%s (%s t)) t)) :pattern ((%s t))))", wn, widx, wkey, wkey))
	ord := lt(app(wkey, "t"), app(wkey, "u"))
	if rng.Desc {
		ord = lt(app(wkey, "u"), app(wkey, "t"))
	}
	st.Assume(fmt.Sprintf("(forall ((t Int) (u Int)) (! (=> (and (<= 0 t) (< t u) (< u %s)) %s) :pattern ((%s t) (%s u))))", wn, ord, wkey, wkey))

	fr := c.fr
	evalInv := func(s *State, cl *Clause, i string) string {
		env := x.frameEnv(s, fr)
		bound := x.letBound(x.contractOf(fr.fn), fr)
		if !fr.isTop {
			bound = map[string]SV{}
			for kk, v := range x.topLets {
				bound[kk] = v
			}
		}
		bound["$i"] = SV{T: i, Sort: "Int"}
		bound["$n"] = SV{T: wn, Sort: "Int"}
		sv, err := evalSpecFns(cl.node, env, x.sigs, bound, map[string]FunSig{"$key": {Args: []string{"Int"}, Ret: ks}, "$idx": {Args: []string{ks}, Ret: "Int"}}, map[string]string{"$key": wkey, "$idx": widx})
		if err != nil {
			if strings.Contains(err.Error(), "unknown identifier") && fr.isTop {
				x.addInapplicable(fmt.Sprintf("walk%d.init", k), cl.Tag, cl.Text, err.Error(), cl.Props)
				return "true"
			}
			x.fail("walk %d invariant %s: %v", k, cl.Tag, err)
			return "true"
		}
		return sv.T
	}
	for _, cl := range invs {
		x.addObl(fmt.Sprintf("walk%d.init", k), cl.Tag, cl.Text, st, evalInv(st, cl, "0"), cl.Props)
	}
	// havoc what the callback may write
	cells := map[int]bool{}
	x.cellsWrittenBy(st, fn, free, cells, 0)
	for cnum := range cells {
		switch cv := st.cells[cnum].(type) {
		case TV:
			st.cells[cnum] = x.freshTV("walkcell", cv.Ty, st)
		case SliceRef:
			// a variable holding a locally made slice (make + append in the callback): after arbitrarily many
			// iterations it holds an arbitrary slice value of its type
			if bt, ok := st.cells[cv.Cell].(TV); ok {
				st.cells[cnum] = x.freshTV("walkcell", bt.Ty, st)
			}
		}
	}
	x.bindState = st
	x.bindFree(fn, free)
	x.dynCtxArgs, x.dynCommits = nil, nil
	ws, unk := x.fnWrites(fn, map[*ssa.Function]bool{})
	x.havocGhost(st, ws, unk)
	if len(x.dynCtxArgs) > 0 {
		// the callback hands a context to code resolved only at run time: every handle may be written by it
		for hh := range st.stores {
			x.routerHavoc(st, hh)
		}
	}
	i := e.FreshConst("wi", "Int")
	st.Assume(and(app("<=", "0", i), app("<=", i, wn)))
	for _, cl := range invs {
		st.Assume(evalInv(st, cl, i))
	}
	var outs []Outcome
	// exhausted
	{
		s := st.Clone()
		s.Assume(eq(i, wn))
		outs = append(outs, Outcome{st: s, vals: []Value{nilErr()}})
	}
	// one more entry
	s := st
	s.Assume(app("<", i, wn))
	key := app(wkey, i)
	cur := x.ghostGet(s, h, d.name, d.sort, d.gi)
	val := TV{T: app("val", app("select", cur, key)), Ty: d.valTy}
	s.Assume(isSomeT(app("select", cur, key), optS))
	for _, f := range e.TypeFacts(val.T, d.valTy, 0) {
		s.Assume(f)
	}
	keyV := TV{T: key, Ty: d.keyTy}
	for _, f := range e.TypeFacts(app("snd", key), pairSnd(d.keyTy), 0) {
		if strings.HasPrefix(ks, "(Pair") {
			s.Assume(f)
		}
	}
	res := x.execFunc(s, fn, []Value{keyV, val}, free, c.fr.depth+1, false, c.fr)
	for _, r := range res {
		if r.panic {
			outs = append(outs, r)
			continue
		}
		stop, errv := term(r.vals[0]), term(r.vals[1])
		// error: Walk returns it
		if errv != "0" {
			a := r.st.Clone()
			a.Assume(not(eq(errv, "0")))
			outs = append(outs, Outcome{st: a, vals: []Value{TV{T: errv, Ty: tError}}})
		}
		ok := r.st
		ok.Assume(eq(errv, "0"))
		if stop != "false" {
			a := ok.Clone()
			a.Assume(stop)
			outs = append(outs, Outcome{st: a, vals: []Value{nilErr()}})
		}
		if stop != "true" {
			ok.Assume(not(stop))
			for _, cl := range invs {
				x.addObl(fmt.Sprintf("walk%d.step", k), cl.Tag, cl.Text, ok, evalInv(ok, cl, app("+", i, "1")), cl.Props)
			}
		}
	}
	return outs
}

func pairSnd(t types.Type) types.Type {
	if n, ok := types.Unalias(t).(*types.Named); ok && n.TypeArgs() != nil && n.TypeArgs().Len() == 2 {
		return n.TypeArgs().At(1)
	}
	return types.Typ[types.Int]
}

func (x *Exec) bcmpDecl(a, b string) string {
	x.declBytesOps()
	return app("bcmp", a, b)
}
