package main

func applyRegions(s *Session, prop string, reps []*FuncReport, known KnownFile) {}

func tryReplay(s *Session, prop string, g *OblGroup, fo *Obligation) (bool, map[string]interface{}) {
	return false, map[string]interface{}{"status": "no replay driver for this obligation kind yet"}
}
