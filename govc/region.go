package main

// Known-finding regions (DESIGN.md §5): a recorded finding names an obligation and a predicate ("region") over the
// function's inputs and pre-state that characterises the recorded failure. For such an obligation the check
//   - proves the obligation on the complement of all listed regions (any other way to violate the clause is a VIOLATION),
//   - asks whether the obligation still fails inside each region; if so it prints the KNOWN-FINDING line, if the solver
//     proves it inside the region as well (the defect was repaired) nothing is printed.

import (
	"encoding/json"
	"os"
	"os/exec"
	"path/filepath"
	"regexp"
	"strconv"
	"strings"
)

type regionTerm struct {
	ID   string
	What string
	Term string
}

func stripProp(name string) string {
	if i := strings.Index(name, "."); i >= 0 {
		return name[i+1:]
	}
	return name
}

// prepareRegions evaluates the regions of the findings recorded for the function under verification in its entry state.
func (x *Exec) prepareRegions(env *cenv) {
	x.regions = map[string][]regionTerm{}
	for _, kf := range loadKnown().Findings {
		ob := stripProp(kf.Obligation)
		if !strings.HasPrefix(ob, x.topShort()+".") {
			continue
		}
		node, err := ParseSpec(kf.Region)
		if err != nil {
			x.fail("known finding %s: region does not parse: %v", kf.ID, err)
			return
		}
		sv, err := EvalSpec(node, env, x.sigs, x.topLets)
		if err != nil {
			x.fail("known finding %s: region cannot be evaluated on the current source: %v", kf.ID, err)
			return
		}
		x.regions[ob] = append(x.regions[ob], regionTerm{ID: kf.ID, What: kf.What, Term: sv.T})
	}
}

// splitRegions rewrites the obligations that have recorded regions.
func (x *Exec) splitRegions() {
	if len(x.regions) == 0 {
		return
	}
	var extra []*Obligation
	for _, o := range x.obls {
		if o.Kind == "vacuity" || o.Result != "" {
			continue
		}
		base := stripProp(o.Name)
		if i := strings.Index(base, "@"); i >= 0 {
			base = base[:i]
		}
		rs, ok := x.regions[base]
		if !ok {
			continue
		}
		for _, r := range rs {
			in := *o
			in.Kind = "known"
			in.Name = o.Name + "#inside:" + r.ID
			in.Assume = append(append([]string(nil), o.Assume...), r.Term)
			in.Region = r.ID + " " + r.What
			extra = append(extra, &in)
		}
		for _, r := range rs {
			o.Assume = append(o.Assume, not(r.Term))
		}
		o.Clause += "   [outside the recorded known-finding region(s)]"
	}
	x.obls = append(x.obls, extra...)
}

func applyRegions(s *Session, prop string, reps []*FuncReport, known KnownFile) {}

// replayKnown runs the stored demonstration of a recorded finding on the real code (go test -overlay, nothing is written
// to the repository). The demonstrations assert the property, so they FAIL while the defect is present.
func replayKnown(kf KnownFinding) (present bool, out string) {
	if kf.Replay == "" || kf.ReplayPkg == "" {
		return false, "no stored demonstration"
	}
	cmd := exec.Command("sh", filepath.Join(verifDir, "replay", "run_overlay.sh"), kf.ReplayPkg, filepath.Join(verifDir, kf.Replay), kf.ReplayRun, repoDir)
	cmd.Env = append(os.Environ(), "GOFLAGS=", "GOPROXY=off", "GOSUMDB=off", "GOTOOLCHAIN=local")
	b, err := cmd.CombinedOutput()
	return err != nil && strings.Contains(string(b), "--- FAIL"), trunc(string(b), 3000)
}

// ---------------------------------------------------------------------------------------------------------------
// Replay of a counterexample on the real code.
//
// For the functions listed in /verif/replay/drivers/index.json the model of a failed obligation is projected on the
// listed input terms (get-value on the kept query), written to a JSON file, and a driver test is injected into the
// function's package with `go test -overlay`. The driver builds the input, runs the REAL function and compares its result
// with an independent Go statement of the property clause; it prints REPLAY-CONFIRMED when the real code contradicts it.

type replayDriver struct {
	Match  string            `json:"match"`  // regexp on the contract key of the function under verification
	Kinds  []string          `json:"kinds"`  // obligation kinds the driver can replay (post, frame, ...)
	Pkg    string            `json:"pkg"`    // package directory relative to the repository
	File   string            `json:"file"`   // driver test file relative to /verif
	Run    string            `json:"run"`    // -run regexp
	Inputs map[string]string `json:"inputs"` // name -> SMT term over the entry values of the parameters
}

func loadDrivers() []replayDriver {
	var ds []replayDriver
	data, err := os.ReadFile(filepath.Join(verifDir, "replay", "drivers", "index.json"))
	if err == nil {
		json.Unmarshal(data, &ds)
	}
	return ds
}

var rvRe = regexp.MustCompile(`\(rv!(\d+)\s+(\(-\s*\d+\)|-?\d+|true|false)\)`)

// modelValues re-solves the kept query with one fresh constant per requested term (sort Int unless the term is written
// "Bool:<term>") and reads the constants' values from the model.
func modelValues(file string, terms []string) (map[string]string, string) {
	data, err := os.ReadFile(file)
	if err != nil {
		return nil, err.Error()
	}
	txt := string(data)
	if i := strings.LastIndex(txt, "(check-sat)"); i >= 0 {
		txt = txt[:i]
	}
	var names []string
	for k, t := range terms {
		sort := "Int"
		if strings.HasPrefix(t, "Bool:") {
			sort, t = "Bool", strings.TrimPrefix(t, "Bool:")
		}
		n := "rv!" + strconv.Itoa(k)
		txt += "(declare-const " + n + " " + sort + ")\n(assert (= " + n + " " + t + "))\n"
		names = append(names, n)
	}
	txt = "(set-option :produce-models true)\n" + txt + "(check-sat)\n(get-value (" + strings.Join(names, " ") + "))\n"
	vf := strings.TrimSuffix(file, ".smt2") + ".values.smt2"
	os.WriteFile(vf, []byte(txt), 0o644)
	out, _ := exec.Command("z3-new", "-T:30", vf).CombinedOutput()
	o := strings.TrimSpace(string(out))
	if !strings.HasPrefix(o, "sat") {
		return nil, "no model from z3-new: " + trunc(o, 300)
	}
	vals := map[string]string{}
	for _, m := range rvRe.FindAllStringSubmatch(o, -1) {
		k, _ := strconv.Atoi(m[1])
		v := m[2]
		if strings.HasPrefix(v, "(") {
			v = "-" + strings.TrimSpace(strings.Trim(v, "()-"))
		}
		if k < len(terms) {
			vals[terms[k]] = v
		}
	}
	return vals, ""
}

func tryReplay(s *Session, prop string, g *OblGroup, fo *Obligation) (bool, map[string]interface{}) {
	for _, d := range loadDrivers() {
		if len(d.Inputs) > 0 && (fo.Result != "sat" || fo.File == "") {
			continue
		}
		if ok, _ := regexp.MatchString(d.Match, g.Func); !ok {
			continue
		}
		kindOK := len(d.Kinds) == 0
		for _, k := range d.Kinds {
			kindOK = kindOK || k == g.Kind
		}
		if !kindOK {
			continue
		}
		names := sortedKeys(d.Inputs)
		var terms []string
		for _, n := range names {
			terms = append(terms, d.Inputs[n])
		}
		vals := map[string]string{}
		if len(terms) > 0 {
			var why string
			vals, why = modelValues(fo.File, terms)
			if vals == nil {
				return false, map[string]interface{}{"status": "model projection failed: " + why}
			}
		}
		input := map[string]string{"obligation": g.Name, "clause": g.Clause}
		for _, n := range names {
			input[n] = vals[d.Inputs[n]]
		}
		dir := filepath.Join(outDir(), "replay")
		os.MkdirAll(dir, 0o755)
		inFile := filepath.Join(dir, sanitize(g.Name)+".input.json")
		data, _ := json.MarshalIndent(input, "", " ")
		os.WriteFile(inFile, data, 0o644)
		cmd := exec.Command("sh", filepath.Join(verifDir, "replay", "run_overlay.sh"), d.Pkg, filepath.Join(verifDir, d.File), d.Run, repoDir)
		cmd.Env = append(os.Environ(), "GOFLAGS=", "GOPROXY=off", "GOSUMDB=off", "GOTOOLCHAIN=local", "VERIF_REPLAY_INPUT="+inFile)
		out, _ := cmd.CombinedOutput()
		confirmed := strings.Contains(string(out), "REPLAY-CONFIRMED")
		var lines []string
		for _, l := range strings.Split(string(out), "\n") {
			if strings.Contains(l, "REPLAY-") {
				lines = append(lines, strings.TrimSpace(l))
			}
		}
		return confirmed, map[string]interface{}{"driver": d.File, "input": input, "input_file": inFile, "driver_output": lines,
			"status": map[bool]string{true: "the real code contradicts the clause on this input", false: "the real code agrees with the clause on the model's input (abstraction too coarse, or the driver does not cover this clause)"}[confirmed],
			"raw": trunc(string(out), 1500)}
	}
	// No driver built from the solver's model applies: try the stored scenario tests of this property (histories written by
	// sub-agents for seeded changes; each asserts the property and passes on the unchanged tree). A scenario that fails on the
	// tree under check is a concrete failing history on the real code - found by replaying stored scenarios, not derived
	// from the verifier's model, and the replay file says so.
	if name, out, ok := scenarioReplay(prop); ok {
		return true, map[string]interface{}{"status": "a stored scenario test of this property fails on the real code (not derived from the solver's model)",
			"scenario": name, "driver_output": out}
	}
	if fo.Result != "sat" {
		return false, map[string]interface{}{"status": "the solver gave no model for this obligation (" + fo.Result + "), no model-free driver covers it and every stored scenario of the property passes"}
	}
	return false, map[string]interface{}{"status": "no replay driver for this function / obligation kind; every stored scenario of the property passes"}
}

type scenario struct {
	Name    string `json:"name"`
	Pkg     string `json:"pkg"`
	File    string `json:"file"`
	Run     string `json:"run"`
	History string `json:"history"`
}

var scenarioCache = map[string]*struct {
	name string
	out  []string
	ok   bool
}{}

// scenarioReplay runs the stored scenarios of a property once per check run (in parallel) and reports the first that fails.
func scenarioReplay(prop string) (string, []string, bool) {
	if c, ok := scenarioCache[prop]; ok {
		return c.name, c.out, c.ok
	}
	res := &struct {
		name string
		out  []string
		ok   bool
	}{}
	scenarioCache[prop] = res
	if os.Getenv("VERIF_NO_SCENARIOS") != "" {
		return "", nil, false
	}
	idx := map[string][]scenario{}
	data, err := os.ReadFile(filepath.Join(verifDir, "replay", "scenarios", "index.json"))
	if err != nil || json.Unmarshal(data, &idx) != nil {
		return "", nil, false
	}
	type r struct {
		sc     scenario
		failed bool
		lines  []string
	}
	scs := idx[prop]
	ch := make(chan r, len(scs))
	for _, sc := range scs {
		go func(sc scenario) {
			cmd := exec.Command("sh", filepath.Join(verifDir, "replay", "run_overlay.sh"), sc.Pkg, filepath.Join(verifDir, sc.File), sc.Run, repoDir)
			cmd.Env = append(os.Environ(), "GOFLAGS=", "GOPROXY=off", "GOSUMDB=off", "GOTOOLCHAIN=local")
			out, err := cmd.CombinedOutput()
			o := string(out)
			failed := err != nil && strings.Contains(o, "--- FAIL") && !strings.Contains(o, "[build failed]")
			var lines []string
			for _, l := range strings.Split(o, "\n") {
				if strings.Contains(l, "Error:") || strings.Contains(l, "--- FAIL") || strings.Contains(l, "Messages:") || strings.Contains(l, "_test.go:") {
					lines = append(lines, strings.TrimSpace(l))
				}
			}
			if len(lines) > 12 {
				lines = lines[:12]
			}
			ch <- r{sc, failed, lines}
		}(sc)
	}
	for range scs {
		x := <-ch
		if x.failed && !res.ok {
			res.ok, res.name = true, x.sc.Name+" ("+x.sc.Run+"): "+x.sc.History
			res.out = x.lines
		}
	}
	return res.name, res.out, res.ok
}
