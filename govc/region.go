package main

// Known-finding regions (DESIGN.md §5): a recorded finding names an obligation and a predicate ("region") over the
// function's inputs and pre-state that characterises the recorded failure. For such an obligation the check
//   - proves the obligation on the complement of all listed regions (any other way to violate the clause is a VIOLATION),
//   - asks whether the obligation still fails inside each region; if so it prints the KNOWN-FINDING line, if the solver
//     proves it inside the region as well (the defect was repaired) nothing is printed.

import (
	"os"
	"os/exec"
	"path/filepath"
	"strings"
)

type regionTerm struct {
	ID   string
	What string
	Term string
}

func stripProp(name string) string {
	if i := strings.Index(name, "."); i >= 0 {
		return name[i+1:]
	}
	return name
}

// prepareRegions evaluates the regions of the findings recorded for the function under verification in its entry state.
func (x *Exec) prepareRegions(env *cenv) {
	x.regions = map[string][]regionTerm{}
	for _, kf := range loadKnown().Findings {
		ob := stripProp(kf.Obligation)
		if !strings.HasPrefix(ob, x.topShort()+".") {
			continue
		}
		node, err := ParseSpec(kf.Region)
		if err != nil {
			x.fail("known finding %s: region does not parse: %v", kf.ID, err)
			return
		}
		sv, err := EvalSpec(node, env, x.sigs, x.topLets)
		if err != nil {
			x.fail("known finding %s: region cannot be evaluated on the current source: %v", kf.ID, err)
			return
		}
		x.regions[ob] = append(x.regions[ob], regionTerm{ID: kf.ID, What: kf.What, Term: sv.T})
	}
}

// splitRegions rewrites the obligations that have recorded regions.
func (x *Exec) splitRegions() {
	if len(x.regions) == 0 {
		return
	}
	var extra []*Obligation
	for _, o := range x.obls {
		if o.Kind == "vacuity" || o.Result != "" {
			continue
		}
		base := stripProp(o.Name)
		if i := strings.Index(base, "@"); i >= 0 {
			base = base[:i]
		}
		rs, ok := x.regions[base]
		if !ok {
			continue
		}
		for _, r := range rs {
			in := *o
			in.Kind = "known"
			in.Name = o.Name + "#inside:" + r.ID
			in.Assume = append(append([]string(nil), o.Assume...), r.Term)
			in.Region = r.ID + " " + r.What
			extra = append(extra, &in)
		}
		for _, r := range rs {
			o.Assume = append(o.Assume, not(r.Term))
		}
		o.Clause += "   [outside the recorded known-finding region(s)]"
	}
	x.obls = append(x.obls, extra...)
}

func applyRegions(s *Session, prop string, reps []*FuncReport, known KnownFile) {}

// replayKnown runs the stored demonstration of a recorded finding on the real code (go test -overlay, nothing is written
// to the repository). The demonstrations assert the property, so they FAIL while the defect is present.
func replayKnown(kf KnownFinding) (present bool, out string) {
	if kf.Replay == "" || kf.ReplayPkg == "" {
		return false, "no stored demonstration"
	}
	cmd := exec.Command("sh", filepath.Join(verifDir, "replay", "run_overlay.sh"), kf.ReplayPkg, filepath.Join(verifDir, kf.Replay), kf.ReplayRun, repoDir)
	cmd.Env = append(os.Environ(), "GOFLAGS=", "GOPROXY=off", "GOSUMDB=off", "GOTOOLCHAIN=local")
	b, err := cmd.CombinedOutput()
	return err != nil && strings.Contains(string(b), "--- FAIL"), trunc(string(b), 3000)
}

func tryReplay(s *Session, prop string, g *OblGroup, fo *Obligation) (bool, map[string]interface{}) {
	return false, map[string]interface{}{"status": "no replay driver for this obligation kind yet"}
}
