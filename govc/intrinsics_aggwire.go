package main

// Construction of the L2 oracle handler's vote aggregator (C15): connect's constructors are recorded as facts about the
// objects they return, so that the contract of NewL2OracleHandler can say which validator store the stake-weighted median
// weighs and with which power threshold (what A-MEDIAN assumes of the aggregator held by the handler).

import (
	"fmt"
	"go/constant"
	"go/types"
	"math/big"
	"strings"

	"golang.org/x/tools/go/ssa"
)

type aggFact struct {
	store  string // object path of the validator store handed to MedianFromContext
	thr    string // SMT term of the power threshold (LegacyDec encoding)
	median string // object path of the aggregate function handed to NewDefaultVoteAggregator
}

func (x *Exec) objPathOf(st *State, v Value) string {
	switch q := v.(type) {
	case IfaceV:
		return x.objPathOf(st, q.V)
	case ObjV:
		return q.Path
	case PtrV:
		return x.objPathOf(st, x.load(st, q, nil))
	}
	return ""
}

func (x *Exec) newAggObj(kind string, ty types.Type, f aggFact) ObjV {
	if x.aggFacts == nil {
		x.aggFacts = map[string]aggFact{}
	}
	p := fmt.Sprintf("%s#%d", kind, len(x.aggFacts))
	x.aggFacts[p] = f
	return ObjV{Path: p, Ty: ty}
}

func init() {
	reg("github.com/skip-mev/connect/v2/pkg/math/voteweighted.MedianFromContext", "voteweighted.MedianFromContext(logger, store, threshold) is connect's stake-weighted median over the validators of that store, with that power threshold (A-MEDIAN)", func(c *CallCtx) []Outcome {
		f := aggFact{store: c.x.objPathOf(c.st, c.args[1]), thr: c.t(2)}
		return c.ret(c.x.newAggObj("medianFromContext", c.resultType(0), f))
	})
	reg("github.com/skip-mev/connect/v2/abci/strategies/aggregator.NewDefaultVoteAggregator", "aggregator.NewDefaultVoteAggregator(logger, fn, strategy) aggregates the votes with fn (A-MEDIAN)", func(c *CallCtx) []Outcome {
		f := aggFact{median: c.x.objPathOf(c.st, c.args[1])}
		return c.ret(c.x.newAggObj("defaultVoteAggregator", c.resultType(0), f))
	})
}

// aggOfResult: the facts of the median wired into field voteAggregator of the constructor's result.
func (c *cenv) aggOfResult() (aggFact, bool) {
	x := c.x
	var rv Value
	for _, n := range []string{"ret0", "r"} {
		if v, ok := c.results[n]; ok {
			rv = v
			break
		}
	}
	if rv == nil {
		return aggFact{}, false
	}
	fv, ok := x.fieldByName(c.st, rv, "voteAggregator")
	if !ok {
		return aggFact{}, false
	}
	a, ok := x.aggFacts[x.objPathOf(c.st, fv)]
	if !ok || a.median == "" {
		return aggFact{}, false
	}
	m, ok := x.aggFacts[a.median]
	return m, ok
}

// aggPseudo resolves $aggThreshold (LegacyDec) and $aggStore (string: "<ParamType>.<field path>").
func (c *cenv) aggPseudo(name string) (SV, bool) {
	x := c.x
	m, ok := c.aggOfResult()
	switch name {
	case "$aggThreshold":
		if !ok || m.thr == "" {
			return SV{T: x.enc.FreshConst("unknownAggThreshold", "Int"), Sort: "Int"}, true
		}
		return SV{T: m.thr, Sort: "Int"}, true
	case "$aggStore":
		if !ok || m.store == "" {
			return SV{T: x.enc.Lit("<unknown>"), Sort: "Bytes"}, true
		}
		p := m.store
		// name the root by the parameter's type, not by the parameter's name
		for n, v := range c.names {
			op := ""
			var ty types.Type
			switch q := v.(type) {
			case ObjV:
				op, ty = q.Path, q.Ty
			case PtrV:
				if o, ok := x.load(c.st, q, nil).(ObjV); ok {
					op, ty = o.Path, o.Ty
				}
			}
			_ = n
			if op != "" && (p == op || strings.HasPrefix(p, op+".")) {
				tn := namedPath(deref(ty))
				if i := strings.LastIndex(tn, "."); i >= 0 {
					tn = tn[i+1:]
				}
				p = tn + p[len(op):]
				break
			}
		}
		return SV{T: x.enc.Lit(p), Sort: "Bytes"}, true
	}
	return SV{}, false
}

// externalInitValues: package-level variables of dependencies (their initialisers are not loaded as SSA) whose value is
// taken from the pinned dependency's source; that nothing reassigns them is assumed (listed under A-MEDIAN).
var externalInitValues = map[string]string{
	// connect v2.0.1 pkg/math/voteweighted/voteweighted.go: var DefaultPowerThreshold = math.LegacyNewDecWithPrec(667, 3)
	"github.com/skip-mev/connect/v2/pkg/math/voteweighted.DefaultPowerThreshold": "667000000000000000",
}

// initValue: the value a package initialiser stores into a package-level variable that nothing else writes, when the
// initialiser is one of a few simple shapes (a constant, a LegacyDec literal constructor, another such variable).
func (x *Exec) initValue(st *State, g *ssa.Global, depth int) (Value, bool) {
	if depth > 3 || g.Pkg == nil {
		return nil, false
	}
	if t, ok := externalInitValues[g.Pkg.Pkg.Path()+"."+g.Name()]; ok {
		return TV{T: t, Ty: deref(g.Type())}, true
	}
	initFn := g.Pkg.Func("init")
	if initFn == nil || initFn.Blocks == nil {
		return nil, false
	}
	var stored ssa.Value
	n := 0
	for _, b := range initFn.Blocks {
		for _, in := range b.Instrs {
			if s, ok := in.(*ssa.Store); ok && s.Addr == ssa.Value(g) {
				stored = s.Val
				n++
			}
		}
	}
	if n != 1 {
		return nil, false
	}
	return x.initExpr(st, stored, deref(g.Type()), depth)
}

func (x *Exec) initExpr(st *State, v ssa.Value, ty types.Type, depth int) (Value, bool) {
	switch q := v.(type) {
	case *ssa.Const:
		return x.constVal(q), true
	case *ssa.UnOp:
		if g, ok := q.X.(*ssa.Global); ok && !x.globalWritten(g) {
			return x.initValue(st, g, depth+1)
		}
	case *ssa.Call:
		callee := q.Call.StaticCallee()
		if callee == nil || namedPath(ty) != "cosmossdk.io/math.LegacyDec" {
			return nil, false
		}
		intArg := func(i int) (*big.Int, bool) {
			if i >= len(q.Call.Args) {
				return nil, false
			}
			k, ok := q.Call.Args[i].(*ssa.Const)
			if !ok || k.Value == nil || k.Value.Kind() != constant.Int {
				return nil, false
			}
			b, ok := new(big.Int).SetString(k.Value.ExactString(), 10)
			return b, ok
		}
		scale := func(b *big.Int, prec int64) (Value, bool) {
			if prec < 0 || prec > 18 {
				return nil, false
			}
			r := new(big.Int).Mul(b, new(big.Int).Exp(big.NewInt(10), big.NewInt(18-prec), nil))
			t := r.String()
			if r.Sign() < 0 {
				t = "(- " + new(big.Int).Neg(r).String() + ")"
			}
			return TV{T: t, Ty: ty}, true
		}
		switch callee.String() {
		case "cosmossdk.io/math.LegacyNewDecWithPrec":
			i, ok1 := intArg(0)
			p, ok2 := intArg(1)
			if ok1 && ok2 && p.IsInt64() {
				return scale(i, p.Int64())
			}
		case "cosmossdk.io/math.LegacyNewDec":
			if i, ok := intArg(0); ok {
				return scale(i, 0)
			}
		case "cosmossdk.io/math.LegacyMustNewDecFromStr":
			if len(q.Call.Args) == 1 {
				if k, ok := q.Call.Args[0].(*ssa.Const); ok && k.Value != nil && k.Value.Kind() == constant.String {
					s := constant.StringVal(k.Value)
					neg := strings.HasPrefix(s, "-")
					s = strings.TrimPrefix(s, "-")
					ip, fp, _ := strings.Cut(s, ".")
					if len(fp) <= 18 && ip != "" {
						if b, ok := new(big.Int).SetString(ip+fp, 10); ok && !strings.ContainsAny(ip+fp, "+-eE_ ") {
							if neg {
								b.Neg(b)
							}
							return scale(b, int64(len(fp)))
						}
					}
				}
			}
		}
	}
	return nil, false
}
