package main

// encoding/json as used by the bridge hook's metadata probe (C19), as assumed contracts (A-JSON): decoding is a pure
// partial function of the input bytes, of the target type and of the decoder's strictness.
// json.Unmarshal validates the WHOLE input (one JSON value, nothing but white space after it); Decoder.Decode reads
// the FIRST JSON value and ignores what follows. They are different functions:
//   json.Unmarshal(b, &m) with m a map[string]interface{}:  m = jsonObj(b),            err == nil iff jsonObjOK(b)
//   dec.Decode(&m)                                          m = jsonFirstObj(b),       err == nil iff jsonFirstObjOK(b)
//   json.Unmarshal(b, &v) with v of type T:                 v = jsonLenient_T(b),      err == nil iff jsonLenientOK_T(b)
//   dec := json.NewDecoder(strings.NewReader(s)); dec.DisallowUnknownFields(); dec.Decode(&v):
//                                                           v = jsonStrict_T(s),       err == nil iff jsonStrictOK_T(s)
//   dec.Decode(&v) without DisallowUnknownFields:           v = jsonFirstLenient_T(s), err == nil iff jsonFirstLenientOK_T(s)
// Relations assumed: a whole-input object is also a first-value object with the same content; what the strict
// decoder accepts the lenient decoder of the first value accepts with the same result; and on an input that IS one whole
// JSON object (jsonObjOK) strict acceptance implies lenient whole-input acceptance with the same result.
// On failure the target holds an arbitrary value of its type.

import (
	"fmt"
	"go/types"
	"strings"
)

// OpaqueV carries the state of a library object the engine models itself (string reader, json decoder).
type OpaqueV struct {
	Kind string
	S    string // the string the object reads from
	Cell int    // json decoder: cell holding the strictness flag
}

func typeTag(t types.Type) string {
	s := types.TypeString(t, func(p *types.Package) string { return "" })
	s = strings.TrimPrefix(s, ".")
	return sanitize(s)
}

func (x *Exec) jsonDecodeInto(c *CallCtx, src string, target Value, strictT string, whole bool) TV {
	e := x.enc
	if iv, ok := target.(IfaceV); ok {
		target = iv.V
	}
	p, ok := target.(PtrV)
	if !ok {
		x.fail("json decode into %s", describe(target))
		return nilErr()
	}
	cur := c.st.cells[p.Cell]
	errT := e.FreshConst("maybeerr", "Int")
	if mr, isMap := cur.(MapRef); isMap && len(p.Path) == 0 {
		// map[string]interface{} target
		back := c.st.cells[mr.Cell].(TV)
		s := e.Sort(back.Ty)
		f := e.DeclFun("jsonObj", []string{"Bytes"}, s)
		okf := e.DeclFun("jsonObjOK", []string{"Bytes"}, "Bool")
		ff := e.DeclFun("jsonFirstObj", []string{"Bytes"}, s)
		fok := e.DeclFun("jsonFirstObjOK", []string{"Bytes"}, "Bool")
		e.Axiom(fmt.Sprintf("(forall ((b Bytes)) (! (=> (%s b) (and (%s b) (= (%s b) (%s b)))) :pattern ((%s b))))", okf, fok, ff, f, okf))
		if !whole {
			f, okf = ff, fok
		}
		fresh := x.freshTV("jsonjunk", back.Ty, c.st)
		c.st.cells[mr.Cell] = TV{T: ite(app(okf, src), app(f, src), fresh.T), Ty: back.Ty}
		c.st.Assume(eq(eq(errT, "0"), app(okf, src)))
		return TV{T: errT, Ty: tError}
	}
	tv, isTV := cur.(TV)
	if !isTV || len(p.Path) != 0 {
		x.fail("json decode into %s", describe(cur))
		return nilErr()
	}
	tag := typeTag(tv.Ty)
	s := e.Sort(tv.Ty)
	lf, lok := e.DeclFun("jsonLenient_"+tag, []string{"Bytes"}, s), e.DeclFun("jsonLenientOK_"+tag, []string{"Bytes"}, "Bool")
	sf, sok := e.DeclFun("jsonStrict_"+tag, []string{"Bytes"}, s), e.DeclFun("jsonStrictOK_"+tag, []string{"Bytes"}, "Bool")
	flf, flok := e.DeclFun("jsonFirstLenient_"+tag, []string{"Bytes"}, s), e.DeclFun("jsonFirstLenientOK_"+tag, []string{"Bytes"}, "Bool")
	wok := e.DeclFun("jsonObjOK", []string{"Bytes"}, "Bool")
	// strict decoding of the first value accepts a subset of what lenient decoding of the first value accepts and agrees with it there
	e.Axiom(fmt.Sprintf("(forall ((b Bytes)) (! (=> (%s b) (and (%s b) (= (%s b) (%s b)))) :pattern ((%s b))))", sok, flok, sf, flf, sok))
	// ... and on an input that is one whole JSON object also with lenient whole-input decoding (json.Unmarshal)
	e.Axiom(fmt.Sprintf("(forall ((b Bytes)) (! (=> (and (%s b) (%s b)) (and (%s b) (= (%s b) (%s b)))) :pattern ((%s b) (%s b))))", wok, sok, lok, sf, lf, wok, sok))
	if !whole {
		lf, lok = flf, flok
	} else if strictT != "false" {
		x.fail("strict whole-input json decoding is not modelled")
	}
	okT := ite(strictT, app(sok, src), app(lok, src))
	valT := ite(strictT, app(sf, src), app(lf, src))
	fresh := x.freshTV("jsonjunk", tv.Ty, c.st)
	c.st.cells[p.Cell] = TV{T: ite(okT, valT, fresh.T), Ty: tv.Ty}
	c.st.Assume(eq(eq(errT, "0"), okT))
	return TV{T: errT, Ty: tError}
}

func init() {
	reg("strings.NewReader", "strings.NewReader(s) reads the bytes of s", func(c *CallCtx) []Outcome {
		return c.ret(OpaqueV{Kind: "reader", S: c.t(0)})
	})
	reg("encoding/json.NewDecoder", "json.NewDecoder(r) decodes the bytes r yields; lenient about unknown fields until told otherwise", func(c *CallCtx) []Outcome {
		r := c.args[0]
		if iv, ok := r.(IfaceV); ok {
			r = iv.V
		}
		rd, ok := r.(OpaqueV)
		if !ok || rd.Kind != "reader" {
			c.x.fail("json.NewDecoder on %s", describe(r))
			return nil
		}
		cell := c.x.newCell(c.st, TV{T: "false", Ty: tBool}, tBool)
		return c.ret(OpaqueV{Kind: "jsondec", S: rd.S, Cell: cell})
	})
	reg("(*encoding/json.Decoder).DisallowUnknownFields", "Decoder.DisallowUnknownFields makes the decoder strict", func(c *CallCtx) []Outcome {
		d, ok := c.args[0].(OpaqueV)
		if !ok || d.Kind != "jsondec" {
			c.x.fail("DisallowUnknownFields on %s", describe(c.args[0]))
			return nil
		}
		c.st.cells[d.Cell] = TV{T: "true", Ty: tBool}
		return c.ret()
	})
	reg("(*encoding/json.Decoder).Decode", "Decoder.Decode(&v) decodes the reader's bytes into v: a pure partial function of the bytes, the target type and the strictness (A-JSON)", func(c *CallCtx) []Outcome {
		d, ok := c.args[0].(OpaqueV)
		if !ok || d.Kind != "jsondec" {
			c.x.fail("Decode on %s", describe(c.args[0]))
			return nil
		}
		strict := term(c.st.cells[d.Cell])
		return c.ret(c.x.jsonDecodeInto(c, d.S, c.args[1], strict, false))
	})
	reg("encoding/json.Unmarshal", "json.Unmarshal(b, &v) decodes b into v leniently: a pure partial function of the bytes and the target type (A-JSON)", func(c *CallCtx) []Outcome {
		return c.ret(c.x.jsonDecodeInto(c, c.t(0), c.args[1], "false", true))
	})
}
