package main

import (
	"encoding/json"
	"fmt"
	"os"
	"path/filepath"
)

// applyKnownRegions splits obligations that have listed known-finding regions into a complement
// query (must be discharged) and an inside query (expected to fail while the defect exists).
func applyKnownRegions(s *Session, prop string, reps []*FuncReport, known KnownFile) {
	// implemented in region.go once regions are needed
	applyRegions(s, prop, reps, known)
}

type ReplayInfo struct {
	Path      string
	Confirmed bool
}

// writeReplay writes the replay file of a failed obligation and tries to confirm it on the real code.
func writeReplay(s *Session, prop string, g *OblGroup) ReplayInfo {
	dir := filepath.Join(outDir(), "replay")
	os.MkdirAll(dir, 0o755)
	p := filepath.Join(dir, sanitize(g.Name)+".json")
	var fo *Obligation
	for _, o := range g.Obls {
		if !oblOK(o) {
			fo = o
			break
		}
	}
	info := map[string]interface{}{
		"property": prop, "obligation": g.Name, "function": g.Func, "clause": g.Clause, "kind": g.Kind,
		"solver_result": fo.Result, "per_solver": fo.Results, "solver_output": trunc(fo.Model, 6000),
	}
	confirmed, detail := tryReplay(s, prop, g, fo)
	info["confirmed_on_real_code"] = confirmed
	info["replay"] = detail
	data, _ := json.MarshalIndent(info, "", " ")
	os.WriteFile(p, data, 0o644)
	return ReplayInfo{Path: p, Confirmed: confirmed}
}

func runSelftest(pos []string, verbose bool) int {
	fmt.Println("selftest: use /verif/selftest/run.sh")
	return 0
}
