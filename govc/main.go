package main

import (
	"encoding/json"
	"flag"
	"fmt"
	"os"
	"path/filepath"
	"regexp"
	"sort"
	"strconv"
	"strings"
	"time"
)

var debugPanics = false
var verifDir = verifDirFromEnv()

// VERIF_DIR lets the corpus runners work on a snapshot of /verif while the tree is being edited.
func verifDirFromEnv() string {
	if v := os.Getenv("VERIF_DIR"); v != "" {
		return v
	}
	return "/verif"
}

// FrameGuard: functions that are not about this property but could write the state it is about. Only their frame obligations on
// the listed state cells are checked under this property (the rest of their contract belongs to the properties they are tagged with).
type FrameGuard struct {
	Cells     []string `json:"cells"`
	Functions []string `json:"functions"`
}

type PropConfig struct {
	Functions []string `json:"functions"`
	Lemmas    []string `json:"lemmas"`
	Level     string   `json:"level"`
	NotDecided []string `json:"not_decided"`
	Assumptions []string `json:"assumptions"`
	Discipline  bool     `json:"discipline"`
	EventForwarding bool `json:"event_forwarding"`
	FrameGuard      *FrameGuard `json:"frame_guard"`
}

func loadConfig() (map[string]*PropConfig, error) {
	data, err := os.ReadFile(filepath.Join(verifDir, "spec", "properties.json"))
	if err != nil {
		return nil, err
	}
	cfg := map[string]*PropConfig{}
	if err := json.Unmarshal(data, &cfg); err != nil {
		return nil, err
	}
	return cfg, nil
}

func main() {
	if len(os.Args) < 2 {
		fmt.Fprintln(os.Stderr, "usage: govc check <Cxx> [--tier quick|thorough] | govc verify <regex>")
		os.Exit(2)
	}
	cmd := os.Args[1]
	fs := flag.NewFlagSet(cmd, flag.ExitOnError)
	tier := fs.String("tier", os.Getenv("VERIF_TIER"), "quick|thorough")
	verbose := fs.Bool("v", false, "verbose")
	keep := fs.Bool("keep", false, "keep SMT files")
	dbg := fs.Bool("debug", false, "propagate engine panics")
	repo := fs.String("repo", "/repo", "repository root")
	var pos []string
	args := os.Args[2:]
	for len(args) > 0 && !strings.HasPrefix(args[0], "-") {
		pos = append(pos, args[0])
		args = args[1:]
	}
	fs.Parse(args)
	pos = append(pos, fs.Args()...)
	if *tier == "" {
		*tier = "quick"
	}
	keepSMT = *keep
	debugPanics = *dbg
	repoDir = *repo
	switch cmd {
	case "check":
		if len(pos) != 1 {
			fmt.Fprintln(os.Stderr, "check needs a property id")
			os.Exit(2)
		}
		os.Exit(runCheck(pos[0], *tier, *verbose))
	case "verify":
		os.Exit(runVerify(pos, *verbose))
	case "list":
		os.Exit(runList())
	case "selftest":
		os.Exit(runSelftest(pos, *verbose))
	}
	fmt.Fprintln(os.Stderr, "unknown command", cmd)
	os.Exit(2)
}

var loadPatterns = []string{"./x/ophost/...", "./x/opchild/..."}

type Session struct {
	L       *Loaded
	DB      *ContractDB
	Prelude string
	Sigs    map[string]FunSig
}

func newSession() (*Session, error) {
	L, err := Load(loadPatterns...)
	if err != nil {
		return nil, err
	}
	db, err := LoadContracts(L.PkgDirs)
	if err != nil {
		return nil, err
	}
	for _, ct := range db.ByKey {
		if err := ct.Prepare(); err != nil {
			return nil, err
		}
	}
	pre, err := os.ReadFile(filepath.Join(verifDir, "spec", "prelude.smt2"))
	if err != nil {
		return nil, err
	}
	sigs := ParsePreludeSigs(string(pre))
	for k, v := range ParsePreludeSigs(basePrelude) {
		sigs[k] = v
	}
	return &Session{L: L, DB: db, Prelude: string(pre), Sigs: sigs}, nil
}

func (s *Session) verifyFunc(prop string, ct *Contract) *FuncReport {
	fn := s.L.FindFunc(ct)
	if fn == nil {
		return &FuncReport{Key: ct.Key(), Unverified: "function not found in the repository (renamed or removed?)"}
	}
	enc := NewEnc()
	for name := range s.Sigs {
		enc.declSeen[name] = true
	}
	enc.named = ParsePreludeLiterals(s.Prelude)
	x := &Exec{enc: enc, L: s.L, db: s.DB, sigs: s.Sigs, prelude: s.Prelude, maxPaths: 4096, loopInfo: map[*ssaFunction]*loopInfo{},
		ghostTy: map[string]ghostInfo{}, prop: prop, singleCoin: map[string]TV{}, lenHint: map[string]int64{}, callerSeqs: map[string]string{}, gasMeters: map[int]GasV{}}
	var rep *FuncReport
	func() {
		defer func() {
			// a crash of the engine is an engine error of this function (reported as undecided), never a silent exit
			if r := recover(); r != nil {
				rep = &FuncReport{Key: ct.Key(), Unverified: fmt.Sprintf("engine crashed: %v", r)}
			}
		}()
		x.registerGhosts(fn)
		rep = x.Verify(fn, ct)
	}()
	for _, o := range []string{"reclaim_succeeds_if_funded", "send_succeeds_if_funded"} {
		if ct.Opts[o] {
			rep.Opts = append(rep.Opts, o)
		}
	}
	rep.SrcHash = s.L.SourceHash(fn)
	rep.Header = enc.Header(s.Prelude)
	return rep
}

func runVerify(pats []string, verbose bool) int {
	s, err := newSession()
	if err != nil {
		fmt.Fprintln(os.Stderr, "load:", err)
		return 2
	}
	var reps []*FuncReport
	for _, k := range sortedKeys(s.DB.ByKey) {
		match := len(pats) == 0
		for _, p := range pats {
			if ok, _ := regexp.MatchString(p, k); ok {
				match = true
			}
		}
		if !match {
			continue
		}
		reps = append(reps, s.verifyFunc("DBG", s.DB.ByKey[k]))
	}
	dir := filepath.Join(outDir(), "smt", "DBG")
	os.RemoveAll(dir)
	os.MkdirAll(dir, 0o755)
	SolveAll(dir, reps, 10, false)
	bad := 0
	for _, r := range reps {
		fmt.Printf("== %s paths=%d obligations=%d\n", r.Key, r.Paths, len(r.Obls))
		if r.Unverified != "" {
			fmt.Printf("   UNVERIFIED: %s\n", r.Unverified)
			bad++
		}
		for _, w := range r.Warnings {
			fmt.Printf("   warn: %s\n", w)
		}
		for _, g := range groupObls(r.Obls) {
			st := g.Status()
			if st != "discharged" || verbose {
				fmt.Printf("   %-12s %s (%d queries) %s\n", st, g.Name, len(g.Obls), g.Clause)
			}
			if st != "discharged" {
				bad++
				for _, o := range g.Obls {
					if !oblOK(o) {
						fmt.Printf("      -> %s %v\n", o.Result, o.Results)
						if verbose && o.Model != "" {
							fmt.Println(indent(trunc(o.Model, 3000), "         "))
						}
					}
				}
			}
		}
	}
	if bad > 0 {
		return 1
	}
	return 0
}

func indent(s, p string) string { return p + strings.ReplaceAll(s, "\n", "\n"+p) }

func runList() int {
	s, err := newSession()
	if err != nil {
		fmt.Fprintln(os.Stderr, "load:", err)
		return 2
	}
	for _, k := range sortedKeys(s.DB.ByKey) {
		fmt.Println(k)
	}
	return 0
}

// ---------------------------------------------------------------------------------------

type OblGroup struct {
	Name   string
	Kind   string
	Clause string
	Func   string
	Obls   []*Obligation
}

func oblOK(o *Obligation) bool {
	if o.Kind == "vacuity" {
		return o.Result != "unsat" && o.Result != "conflict"
	}
	return o.Result == "unsat"
}

func (g *OblGroup) Status() string {
	for _, o := range g.Obls {
		if o.Result == "conflict" {
			return "solver-conflict"
		}
	}
	for _, o := range g.Obls {
		if !oblOK(o) {
			if o.Kind == "vacuity" {
				return "vacuous"
			}
			if o.Result == "sat" {
				return "FAILED(model)"
			}
			return "FAILED(" + o.Result + ")"
		}
	}
	return "discharged"
}

func groupObls(obls []*Obligation) []*OblGroup {
	m := map[string]*OblGroup{}
	var order []string
	for _, o := range obls {
		g, ok := m[o.Name]
		if !ok {
			g = &OblGroup{Name: o.Name, Kind: o.Kind, Clause: o.Clause, Func: o.Func}
			m[o.Name] = g
			order = append(order, o.Name)
		}
		g.Obls = append(g.Obls, o)
	}
	var out []*OblGroup
	for _, n := range order {
		out = append(out, m[n])
	}
	return out
}

func seedFromEnv() int {
	n, _ := strconv.Atoi(os.Getenv("VERIF_SEED"))
	return n
}

func nowS() float64 { return float64(time.Now().UnixNano()) / 1e9 }

func sortStrings(s []string) []string { sort.Strings(s); return s }
