package main

// Contract expression language: parser and translation to SMT terms.

import (
	"fmt"
	"go/types"
	"strconv"
	"strings"
	"unicode"
)

type Node struct {
	Kind string // lit, str, ident, field, index, update, call, tuple, unary, binary, quant, cond, list
	Op   string
	Name string
	Args []*Node
	Vars []QVar
	Pos  int
}
type QVar struct{ Name, Type string }

type tok struct {
	k string // id, num, str, op, eof
	s string
	p int
}

func lexSpec(src string) ([]tok, error) {
	var out []tok
	i := 0
	for i < len(src) {
		c := src[i]
		switch {
		case c == ' ' || c == '\t' || c == '\n' || c == '\r':
			i++
		case unicode.IsLetter(rune(c)) || c == '_' || c == '$' || c == '\\':
			j := i + 1
			for j < len(src) && (unicode.IsLetter(rune(src[j])) || unicode.IsDigit(rune(src[j])) || src[j] == '_' || src[j] == '$') {
				j++
			}
			out = append(out, tok{"id", src[i:j], i})
			i = j
		case unicode.IsDigit(rune(c)):
			j := i + 1
			for j < len(src) && (unicode.IsDigit(rune(src[j])) || src[j] == '_') {
				j++
			}
			out = append(out, tok{"num", strings.ReplaceAll(src[i:j], "_", ""), i})
			i = j
		case c == '"':
			j := i + 1
			for j < len(src) && src[j] != '"' {
				if src[j] == '\\' {
					j++
				}
				j++
			}
			if j >= len(src) {
				return nil, fmt.Errorf("unterminated string at %d", i)
			}
			s, err := strconv.Unquote(src[i : j+1])
			if err != nil {
				return nil, err
			}
			out = append(out, tok{"str", s, i})
			i = j + 1
		case c == '`':
			j := strings.IndexByte(src[i+1:], '`')
			if j < 0 {
				return nil, fmt.Errorf("unterminated raw at %d", i)
			}
			out = append(out, tok{"raw", src[i+1 : i+1+j], i})
			i = i + j + 2
		default:
			for _, op := range []string{"==>", "<==>", "::", ":=", "==", "!=", "<=", ">=", "&&", "||", "++"} {
				if strings.HasPrefix(src[i:], op) {
					out = append(out, tok{"op", op, i})
					i += len(op)
					goto next
				}
			}
			out = append(out, tok{"op", string(c), i})
			i++
		next:
		}
	}
	out = append(out, tok{"eof", "", len(src)})
	return out, nil
}

type specParser struct {
	toks []tok
	i    int
	src  string
}

func ParseSpec(src string) (n *Node, err error) {
	toks, err := lexSpec(src)
	if err != nil {
		return nil, err
	}
	p := &specParser{toks: toks, src: src}
	defer func() {
		if r := recover(); r != nil {
			err = fmt.Errorf("spec parse error: %v in %q", r, src)
		}
	}()
	n = p.expr()
	if p.peek().k != "eof" {
		panic(fmt.Sprintf("unexpected %q at %d", p.peek().s, p.peek().p))
	}
	return n, nil
}

// ParseSpecList parses comma separated expressions.
func ParseSpecList(src string) (ns []*Node, err error) {
	toks, err := lexSpec(src)
	if err != nil {
		return nil, err
	}
	p := &specParser{toks: toks, src: src}
	defer func() {
		if r := recover(); r != nil {
			err = fmt.Errorf("spec parse error: %v in %q", r, src)
		}
	}()
	for {
		ns = append(ns, p.expr())
		if p.isOp(",") {
			p.i++
			continue
		}
		break
	}
	if p.peek().k != "eof" {
		panic(fmt.Sprintf("unexpected %q at %d", p.peek().s, p.peek().p))
	}
	return ns, nil
}

func (p *specParser) peek() tok { return p.toks[p.i] }
func (p *specParser) isOp(s string) bool {
	t := p.peek()
	return t.k == "op" && t.s == s
}
func (p *specParser) isId(s string) bool {
	t := p.peek()
	return t.k == "id" && t.s == s
}
func (p *specParser) expect(s string) {
	if !p.isOp(s) {
		panic(fmt.Sprintf("expected %q got %q at %d", s, p.peek().s, p.peek().p))
	}
	p.i++
}

func (p *specParser) expr() *Node {
	if p.isId("forall") || p.isId("exists") {
		q := p.peek().s
		p.i++
		var vars []QVar
		for {
			name := p.peek()
			if name.k != "id" {
				panic("quantifier variable expected")
			}
			p.i++
			ty := p.peek()
			if ty.k != "id" && ty.k != "raw" {
				panic("quantifier type expected")
			}
			p.i++
			vars = append(vars, QVar{name.s, ty.s})
			if p.isOp(",") {
				p.i++
				continue
			}
			break
		}
		p.expect("::")
		body := p.expr()
		return &Node{Kind: "quant", Op: q, Vars: vars, Args: []*Node{body}}
	}
	return p.iff()
}

func (p *specParser) iff() *Node {
	l := p.impl()
	for p.isOp("<==>") {
		p.i++
		r := p.impl()
		l = &Node{Kind: "binary", Op: "<==>", Args: []*Node{l, r}}
	}
	return l
}

func (p *specParser) impl() *Node {
	l := p.cond()
	if p.isOp("==>") {
		p.i++
		var r *Node
		if p.isId("forall") || p.isId("exists") {
			r = p.expr()
		} else {
			r = p.impl()
		}
		return &Node{Kind: "binary", Op: "==>", Args: []*Node{l, r}}
	}
	return l
}

func (p *specParser) cond() *Node {
	c := p.or()
	if p.isOp("?") {
		p.i++
		a := p.cond()
		p.expect(":")
		b := p.cond()
		return &Node{Kind: "cond", Args: []*Node{c, a, b}}
	}
	return c
}

func (p *specParser) or() *Node {
	l := p.and()
	for p.isOp("||") {
		p.i++
		r := p.and()
		l = &Node{Kind: "binary", Op: "||", Args: []*Node{l, r}}
	}
	return l
}
func (p *specParser) and() *Node {
	l := p.cmp()
	for p.isOp("&&") {
		p.i++
		var r *Node
		if p.isId("forall") || p.isId("exists") {
			r = p.expr()
		} else {
			r = p.cmp()
		}
		l = &Node{Kind: "binary", Op: "&&", Args: []*Node{l, r}}
	}
	return l
}
func (p *specParser) cmp() *Node {
	l := p.add()
	for _, op := range []string{"==", "!=", "<=", ">=", "<", ">"} {
		if p.isOp(op) {
			p.i++
			r := p.add()
			return &Node{Kind: "binary", Op: op, Args: []*Node{l, r}}
		}
	}
	return l
}
func (p *specParser) add() *Node {
	l := p.mul()
	for p.isOp("+") || p.isOp("-") || p.isOp("++") {
		op := p.peek().s
		p.i++
		r := p.mul()
		l = &Node{Kind: "binary", Op: op, Args: []*Node{l, r}}
	}
	return l
}
func (p *specParser) mul() *Node {
	l := p.unary()
	for p.isOp("*") || p.isOp("/") || p.isOp("%") {
		op := p.peek().s
		p.i++
		r := p.unary()
		l = &Node{Kind: "binary", Op: op, Args: []*Node{l, r}}
	}
	return l
}
func (p *specParser) unary() *Node {
	if p.isOp("!") {
		p.i++
		return &Node{Kind: "unary", Op: "!", Args: []*Node{p.unary()}}
	}
	if p.isOp("-") {
		p.i++
		return &Node{Kind: "unary", Op: "-", Args: []*Node{p.unary()}}
	}
	return p.postfix()
}
func (p *specParser) postfix() *Node {
	n := p.primary()
	for {
		switch {
		case p.isOp("."):
			p.i++
			t := p.peek()
			if t.k != "id" {
				panic("field name expected")
			}
			p.i++
			// dotted identifiers for ghost names like bank.bal are handled in eval
			n = &Node{Kind: "field", Name: t.s, Args: []*Node{n}}
		case p.isOp("["):
			p.i++
			k := p.expr()
			if p.isOp(":=") {
				p.i++
				v := p.expr()
				p.expect("]")
				n = &Node{Kind: "update", Args: []*Node{n, k, v}}
			} else {
				p.expect("]")
				n = &Node{Kind: "index", Args: []*Node{n, k}}
			}
		case p.isOp("(") && (n.Kind == "ident"):
			p.i++
			var args []*Node
			if !p.isOp(")") {
				for {
					args = append(args, p.expr())
					if p.isOp(",") {
						p.i++
						continue
					}
					break
				}
			}
			p.expect(")")
			n = &Node{Kind: "call", Name: n.Name, Args: args}
		default:
			return n
		}
	}
}
func (p *specParser) primary() *Node {
	t := p.peek()
	switch t.k {
	case "num":
		p.i++
		return &Node{Kind: "lit", Name: t.s}
	case "str":
		p.i++
		return &Node{Kind: "str", Name: t.s}
	case "raw":
		p.i++
		return &Node{Kind: "raw", Name: t.s}
	case "id":
		p.i++
		return &Node{Kind: "ident", Name: t.s}
	case "op":
		if t.s == "(" {
			p.i++
			first := p.expr()
			if p.isOp(",") {
				args := []*Node{first}
				for p.isOp(",") {
					p.i++
					args = append(args, p.expr())
				}
				p.expect(")")
				return &Node{Kind: "tuple", Args: args}
			}
			p.expect(")")
			return first
		}
		if t.s == "[" {
			p.i++
			var args []*Node
			if !p.isOp("]") {
				for {
					args = append(args, p.expr())
					if p.isOp(",") {
						p.i++
						continue
					}
					break
				}
			}
			p.expect("]")
			return &Node{Kind: "list", Args: args}
		}
	}
	panic(fmt.Sprintf("unexpected token %q at %d", t.s, t.p))
}

// ---------------------------------------------------------------------------------------
// evaluation

// SV is a spec value: an SMT term with optional Go type information.
type SV struct {
	T    string
	Ty   types.Type // Go type of the value (for field selection), may be nil
	Opt  bool       // T has sort (Opt sort(Ty))
	Arr  bool       // T is an array whose elements are described by (Ty,Opt)
	Sort string     // explicit sort if known and Ty == nil
	None bool       // the literal None / nil (untyped)
}

type SpecEnv interface {
	// Lookup resolves a name (program variable, result, ghost array); old selects the entry state.
	Lookup(name string, old bool) (SV, bool)
	Enc() *Enc
}

type evalCtx struct {
	env   SpecEnv
	old   bool
	bound map[string]SV
	sigs  map[string]FunSig // spec functions from the prelude
	xsigs map[string]FunSig // extra (per-evaluation) functions
	xsyms map[string]string
	qdepth int
}

type FunSig struct {
	Args []string
	Ret  string
	RetT types.Type
}

func qsort(ty string) string {
	switch ty {
	case "uint64", "int64", "int", "uint32", "int32", "uint", "Int":
		return "Int"
	case "bool", "Bool":
		return "Bool"
	case "string", "bytes", "Bytes":
		return "Bytes"
	case "Real":
		return "Real"
	}
	return ty
}
func qrange(name, ty string) string {
	switch ty {
	case "uint64", "uint":
		return and(app(">=", name, "0"), app("<", name, two64))
	case "int64", "int":
		return and(app(">=", name, "(- "+two63+")"), app("<", name, two63))
	case "uint32":
		return and(app(">=", name, "0"), app("<", name, two32))
	}
	return "true"
}

func (c *evalCtx) eval(n *Node) SV {
	e := c.env.Enc()
	switch n.Kind {
	case "lit":
		return SV{T: n.Name, Sort: "Int"}
	case "str":
		return SV{T: e.Lit(n.Name), Sort: "Bytes"}
	case "raw":
		return SV{T: n.Name}
	case "ident":
		switch n.Name {
		case "true", "false":
			return SV{T: n.Name, Sort: "Bool"}
		case "nil", "None":
			return SV{None: true}
		}
		if v, ok := c.bound[n.Name]; ok {
			return v
		}
		if v, ok := c.env.Lookup(n.Name, c.old); ok {
			return v
		}
		if sig, ok := c.sigs[n.Name]; ok && len(sig.Args) == 0 {
			return SV{T: n.Name, Sort: sig.Ret}
		}
		panic(fmt.Sprintf("unknown identifier %q", n.Name))
	case "field":
		// dotted ghost names (bank.bal)
		if dn := dottedName(n); dn != "" {
			if v, ok := c.env.Lookup(dn, c.old); ok {
				return v
			}
		}
		b := c.eval(n.Args[0])
		if b.Ty == nil {
			panic(fmt.Sprintf("field %s of untyped spec value %s", n.Name, b.T))
		}
		ty := b.Ty
		term := b.T
		if b.Opt {
			term = app("val", term)
		}
		if p, ok := ty.Underlying().(*types.Pointer); ok {
			ty = p.Elem()
			term = app("val", term)
		}
		st, ok := ty.Underlying().(*types.Struct)
		if !ok {
			panic(fmt.Sprintf("field %s of non-struct %s", n.Name, ty))
		}
		for i := 0; i < st.NumFields(); i++ {
			if st.Field(i).Name() == n.Name {
				return SV{T: e.Sel(ty, i, term), Ty: st.Field(i).Type()}
			}
		}
		// promoted through embedded fields
		for i := 0; i < st.NumFields(); i++ {
			if st.Field(i).Embedded() {
				if est, ok := st.Field(i).Type().Underlying().(*types.Struct); ok {
					for j := 0; j < est.NumFields(); j++ {
						if est.Field(j).Name() == n.Name {
							return SV{T: e.Sel(st.Field(i).Type(), j, e.Sel(ty, i, term)), Ty: est.Field(j).Type()}
						}
					}
				}
			}
		}
		panic(fmt.Sprintf("no field %s in %s", n.Name, ty))
	case "tuple":
		if len(n.Args) != 2 {
			panic("only pairs supported")
		}
		a, b := c.eval(n.Args[0]), c.eval(n.Args[1])
		return SV{T: app("mkpair", a.T, b.T)}
	case "index":
		b := c.eval(n.Args[0])
		k := c.eval(n.Args[1])
		if b.Arr {
			return SV{T: app("select", b.T, k.T), Ty: b.Ty, Opt: b.Opt, Sort: b.Sort}
		}
		if b.Ty != nil {
			switch u := b.Ty.Underlying().(type) {
			case *types.Slice:
				return SV{T: app("select", app("gseq.arr", b.T), k.T), Ty: u.Elem()}
			case *types.Array:
				return SV{T: app("select", app("gseq.arr", b.T), k.T), Ty: u.Elem()}
			case *types.Map:
				return SV{T: app("select", b.T, k.T), Ty: u.Elem(), Opt: true}
			}
		}
		if strings.HasPrefix(b.Sort, "(GSeq ") {
			return SV{T: app("select", app("gseq.arr", b.T), k.T), Sort: b.Sort[6 : len(b.Sort)-1]}
		}
		if strings.HasPrefix(b.Sort, "(Array ") {
			// value of a spec function with an array sort: the element sort is the last top-level component
			if parts := splitTop(b.Sort[1 : len(b.Sort)-1]); len(parts) == 3 {
				return SV{T: app("select", b.T, k.T), Sort: parts[2]}
			}
		}
		return SV{T: app("select", b.T, k.T)}
	case "update":
		b := c.eval(n.Args[0])
		k := c.eval(n.Args[1])
		v := c.eval(n.Args[2])
		vt := v.T
		if v.None {
			vt = c.noneFor(b)
		}
		return SV{T: app("store", b.T, k.T, vt), Ty: b.Ty, Opt: b.Opt, Arr: b.Arr, Sort: b.Sort}
	case "unary":
		a := c.eval(n.Args[0])
		if n.Op == "!" {
			return SV{T: not(a.T), Sort: "Bool"}
		}
		return SV{T: app("-", a.T), Sort: "Int"}
	case "cond":
		cc := c.eval(n.Args[0])
		a := c.eval(n.Args[1])
		b := c.eval(n.Args[2])
		if a.None {
			a.T = c.noneLike(b)
			a.Ty, a.Opt = b.Ty, b.Opt
		}
		if b.None {
			b.T = c.noneLike(a)
		}
		return SV{T: ite(cc.T, a.T, b.T), Ty: a.Ty, Opt: a.Opt, Sort: a.Sort}
	case "binary":
		return c.binary(n)
	case "quant":
		saved := c.bound
		nb := map[string]SV{}
		for k, v := range saved {
			nb[k] = v
		}
		var decl []string
		var rng []string
		for _, v := range n.Vars {
			s := qsort(v.Type)
			decl = append(decl, fmt.Sprintf("(%s %s)", v.Name, s))
			rng = append(rng, qrange(v.Name, v.Type))
			nb[v.Name] = SV{T: v.Name, Sort: s}
		}
		c.bound = nb
		c.qdepth++
		body := c.eval(n.Args[0])
		c.qdepth--
		c.bound = saved
		r := and(rng...)
		if n.Op == "forall" {
			return SV{T: fmt.Sprintf("(forall (%s) %s)", strings.Join(decl, " "), implies(r, body.T)), Sort: "Bool"}
		}
		return SV{T: fmt.Sprintf("(exists (%s) %s)", strings.Join(decl, " "), and(r, body.T)), Sort: "Bool"}
	case "call":
		return c.call(n)
	case "list":
		panic("list literal only allowed in emits clauses")
	}
	panic("bad node " + n.Kind)
}

func dottedName(n *Node) string {
	if n.Kind == "ident" {
		return n.Name
	}
	if n.Kind == "field" {
		b := dottedName(n.Args[0])
		if b == "" {
			return ""
		}
		return b + "." + n.Name
	}
	return ""
}

func (c *evalCtx) noneFor(arr SV) string {
	e := c.env.Enc()
	if arr.Ty != nil {
		return fmt.Sprintf("(as None (Opt %s))", e.Sort(arr.Ty))
	}
	if arr.Sort != "" {
		return fmt.Sprintf("(as None %s)", arr.Sort)
	}
	panic("cannot type None")
}
func (c *evalCtx) noneLike(o SV) string {
	e := c.env.Enc()
	if o.Ty != nil && o.Opt {
		return fmt.Sprintf("(as None (Opt %s))", e.Sort(o.Ty))
	}
	if o.Ty != nil {
		if isErrorType(o.Ty) {
			return "0"
		}
		return fmt.Sprintf("(as None (Opt %s))", e.Sort(o.Ty))
	}
	if strings.HasPrefix(o.Sort, "(Opt") {
		return fmt.Sprintf("(as None %s)", o.Sort)
	}
	panic("cannot type None/nil against " + o.T)
}

func (c *evalCtx) optSort(o SV) string {
	e := c.env.Enc()
	if o.Ty != nil && o.Opt {
		return "(Opt " + e.Sort(o.Ty) + ")"
	}
	if strings.HasPrefix(o.Sort, "(Opt") {
		return o.Sort
	}
	if o.Ty != nil {
		if s := e.Sort(o.Ty); strings.HasPrefix(s, "(Opt") {
			return s
		}
	}
	return ""
}

func (c *evalCtx) isNone(o SV) string {
	e := c.env.Enc()
	if s := c.optSort(o); s != "" {
		return isNoneT(o.T, s)
	}
	if o.Ty != nil {
		if isErrorType(o.Ty) {
			return eq(o.T, "0")
		}
		s := e.Sort(o.Ty)
		switch {
		case s == "Iface":
			return eq(o.T, "iface_nil")
		case s == "Bytes":
			return eq(o.T, "bempty")
		case s == "Int":
			return eq(o.T, "0")
		}
	}
	if o.Sort == "Int" || o.Sort == "" {
		return eq(o.T, "0")
	}
	panic("cannot compare with nil/None: " + o.T)
}

func (c *evalCtx) binary(n *Node) SV {
	a := c.eval(n.Args[0])
	switch n.Op {
	case "==>":
		// short-circuit on syntactic false avoids evaluating ill-defined right sides
		b := c.eval(n.Args[1])
		return SV{T: implies(a.T, b.T), Sort: "Bool"}
	}
	b := c.eval(n.Args[1])
	switch n.Op {
	case "&&":
		return SV{T: and(a.T, b.T), Sort: "Bool"}
	case "||":
		return SV{T: or(a.T, b.T), Sort: "Bool"}
	case "<==>":
		return SV{T: eq(a.T, b.T), Sort: "Bool"}
	case "==", "!=":
		var t string
		switch {
		case a.None && b.None:
			t = "true"
		case b.None:
			t = c.isNone(a)
		case a.None:
			t = c.isNone(b)
		default:
			t = eq(a.T, b.T)
		}
		if n.Op == "!=" {
			t = not(t)
		}
		return SV{T: t, Sort: "Bool"}
	case "<", "<=", ">", ">=":
		return SV{T: app(n.Op, a.T, b.T), Sort: "Bool"}
	case "+", "-", "*":
		return SV{T: app(n.Op, a.T, b.T), Sort: "Int"}
	case "/":
		return SV{T: app("div", a.T, b.T), Sort: "Int"}
	case "%":
		return SV{T: app("mod", a.T, b.T), Sort: "Int"}
	case "++":
		e := c.env.Enc()
		if c.qdepth == 0 {
			e.GroundBytes(app("bcat", a.T, b.T))
		}
		return SV{T: app("bcat", a.T, b.T), Sort: "Bytes"}
	}
	panic("bad op " + n.Op)
}

func (c *evalCtx) call(n *Node) SV {
	e := c.env.Enc()
	switch n.Name {
	case "old":
		saved := c.old
		c.old = true
		v := c.eval(n.Args[0])
		c.old = saved
		return v
	case "len":
		a := c.eval(n.Args[0])
		if a.Ty != nil && strings.HasPrefix(e.Sort(a.Ty), "(GSeq") {
			return SV{T: app("gseq.len", a.T), Sort: "Int"}
		}
		if strings.HasPrefix(a.Sort, "(GSeq") {
			return SV{T: app("gseq.len", a.T), Sort: "Int"}
		}
		if c.qdepth == 0 {
			// ground length facts (0 <= blen, blen == 0 iff empty) for the byte string the clause talks about
			e.GroundBytes(a.T)
		}
		return SV{T: app("blen", a.T), Sort: "Int"}
	case "val":
		a := c.eval(n.Args[0])
		s := ""
		if strings.HasPrefix(a.Sort, "(Opt ") {
			s = a.Sort[5 : len(a.Sort)-1]
		}
		rt := a.Ty
		if rt != nil && !a.Opt {
			if pt, ok := rt.Underlying().(*types.Pointer); ok {
				rt = pt.Elem()
			}
		}
		return SV{T: app("val", a.T), Ty: rt, Sort: s}
	case "isSome":
		a := c.eval(n.Args[0])
		return SV{T: not(c.isNone(a)), Sort: "Bool"}
	case "isNone":
		a := c.eval(n.Args[0])
		return SV{T: c.isNone(a), Sort: "Bool"}
	case "Some":
		a := c.eval(n.Args[0])
		return SV{T: app("Some", a.T), Ty: a.Ty, Opt: true}
	case "card":
		a := c.eval(n.Args[0])
		s := a.Sort
		if s == "" && a.Ty != nil {
			s = e.Sort(a.Ty)
		}
		if s == "" {
			panic("card() needs a map")
		}
		f := e.DeclFun("card."+sanitize(s), []string{s}, "Int")
		return SV{T: app(f, a.T), Sort: "Int"}
	case "arr":
		a := c.eval(n.Args[0])
		return SV{T: app("gseq.arr", a.T)}
	case "fst", "snd":
		a := c.eval(n.Args[0])
		return SV{T: app(n.Name, a.T)}
	case "ite":
		cc, a, b := c.eval(n.Args[0]), c.eval(n.Args[1]), c.eval(n.Args[2])
		return SV{T: ite(cc.T, a.T, b.T), Ty: a.Ty, Opt: a.Opt, Sort: a.Sort}
	case "prev":
		// prev(e) in a loop step clause: e at the loop header of the current iteration
		pe, ok := c.env.(interface{ Prev() (SpecEnv, bool) })
		if !ok || len(n.Args) != 1 {
			panic("prev(expr) is only meaningful in 'loop k step' clauses")
		}
		env2, has := pe.Prev()
		if !has {
			panic("prev(expr) outside a loop step clause")
		}
		saved := c.env
		c.env = env2
		v := c.eval(n.Args[0])
		c.env = saved
		return v
	case "$at":
		// $at("F", e): e evaluated in the state in which the last by-contract call of F on this path was made
		ae, ok := c.env.(interface {
			AtCall(fn string) (SpecEnv, bool)
		})
		if !ok || len(n.Args) != 2 || n.Args[0].Kind != "str" {
			panic("$at(\"Function\", expr)")
		}
		env2, _ := ae.AtCall(n.Args[0].Name)
		saved := c.env
		c.env = env2
		v := c.eval(n.Args[1])
		c.env = saved
		return v
	case "$hookAll":
		// $hookAll("Method", bridge, cfg): every bridge-hook notification sent on this path (for a loop: in this iteration)
		// was Method(ctx, bridge, cfg)
		he, ok := c.env.(interface {
			HookCallList() []HookCall
		})
		if !ok || len(n.Args) != 3 || n.Args[0].Kind != "str" {
			panic("$hookAll(\"Method\", bridgeId, config)")
		}
		b, cfg := c.eval(n.Args[1]), c.eval(n.Args[2])
		conj := []string{"true"}
		for _, hc := range he.HookCallList() {
			if hc.Name != n.Args[0].Name {
				conj = append(conj, "false")
				continue
			}
			conj = append(conj, eq(hc.Bridge, b.T), eq(hc.Cfg.T, cfg.T))
		}
		return SV{T: and(conj...), Sort: "Bool"}
	case "$called", "$arg", "$ret":
		ce, ok := c.env.(interface {
			CallInfo(kind, fn string, i int) (SV, bool)
		})
		if !ok || len(n.Args) == 0 || n.Args[0].Kind != "str" {
			panic(n.Name + "(\"Function\"[, index])")
		}
		i := 0
		if len(n.Args) > 1 {
			fmt.Sscan(n.Args[1].Name, &i)
		}
		sv, ok := ce.CallInfo(n.Name, n.Args[0].Name, i)
		if !ok {
			panic(fmt.Sprintf("%s: no such call/argument of %s", n.Name, n.Args[0].Name))
		}
		return sv
	case "isType":
		a := c.eval(n.Args[0])
		if n.Args[1].Kind != "str" {
			panic("isType(x, \"type string\")")
		}
		id, ok := typeIDs[n.Args[1].Name]
		if !ok {
			id = len(typeIDs) + 1
			typeIDs[n.Args[1].Name] = id
		}
		return SV{T: eq(app("itype", a.T), fmt.Sprint(id)), Sort: "Bool"}
	case "unbox":
		// unbox(x, "type string"): the value inside the interface value x, viewed at that dynamic type (meaningful where isType(x, ...) holds)
		a := c.eval(n.Args[0])
		te, ok := c.env.(interface {
			TypeByString(s string) (types.Type, bool)
		})
		if !ok || len(n.Args) != 2 || n.Args[1].Kind != "str" {
			panic("unbox(x, \"type string\")")
		}
		ty, found := te.TypeByString(n.Args[1].Name)
		if !found {
			panic("unbox: unknown type " + n.Args[1].Name)
		}
		e := c.env.Enc()
		f := e.DeclFun("unbox."+sanitize(typeKey(ty)), []string{"Iface"}, e.Sort(ty))
		return SV{T: app(f, a.T), Ty: ty}
	case "implements":
		a := c.eval(n.Args[0])
		f := e.DeclFun("implements."+sanitize(n.Args[1].Name), []string{"Int"}, "Bool")
		return SV{T: app(f, app("itype", a.T)), Sort: "Bool"}
	case "unixsec":
		a := c.eval(n.Args[0])
		return SV{T: app("div", a.T, "1000000000"), Sort: "Int"}
	}
	var args []string
	for _, a := range n.Args {
		v := c.eval(a)
		if v.None {
			panic("None as function argument needs a type: " + n.Name)
		}
		args = append(args, v.T)
	}
	if ge, ok := c.env.(interface {
		LoopGhost(name string) (LGhost, bool)
	}); ok {
		if lg, ok := ge.LoopGhost(n.Name); ok {
			return SV{T: app(lg.Sym, args...), Sort: lg.Sort}
		}
	}
	if sig, ok := c.xsigs[n.Name]; ok {
		return SV{T: app(c.xsyms[n.Name], args...), Sort: sig.Ret, Ty: sig.RetT}
	}
	if sig, ok := c.sigs[n.Name]; ok {
		if len(sig.Args) != len(args) {
			panic(fmt.Sprintf("spec function %s expects %d args", n.Name, len(sig.Args)))
		}
		t := app(n.Name, args...)
		if sig.Ret == "Bytes" && c.qdepth == 0 {
			e.GroundBytes(t)
		}
		return SV{T: t, Sort: sig.Ret, Ty: sig.RetT}
	}
	if ce, ok := c.env.(interface {
		CoinSpec(name string, args []SV) (SV, bool)
	}); ok {
		switch n.Name {
		case "dcValid", "cValid", "dcAmt", "cAmt", "feeFor":
			var as []SV
			for _, a := range n.Args {
				as = append(as, c.eval(a))
			}
			if sv, ok := ce.CoinSpec(n.Name, as); ok {
				return sv
			}
		}
	}
	if ret, ok := e.funRet[n.Name]; ok {
		// an uninterpreted function declared by an assumed contract (intrinsic)
		return SV{T: app(n.Name, args...), Sort: ret}
	}
	if te, ok := c.env.(interface {
		TypedUF(name string) ([]types.Type, types.Type, bool)
	}); ok {
		if ats, rt, ok := te.TypedUF(n.Name); ok && len(ats) == len(args) {
			var ss []string
			for _, at := range ats {
				ss = append(ss, e.Sort(at))
			}
			e.DeclFun(n.Name, ss, e.Sort(rt))
			return SV{T: app(n.Name, args...), Ty: rt}
		}
	}
	panic(fmt.Sprintf("unknown spec function %q", n.Name))
}

// EvalSpec translates a parsed expression under env.
func EvalSpec(n *Node, env SpecEnv, sigs map[string]FunSig, bound map[string]SV) (sv SV, err error) {
	defer func() {
		if r := recover(); r != nil {
			err = fmt.Errorf("%v", r)
		}
	}()
	c := &evalCtx{env: env, sigs: sigs, bound: bound}
	if c.bound == nil {
		c.bound = map[string]SV{}
	}
	return c.eval(n), nil
}

// ParsePreludeSigs extracts declare-fun/define-fun signatures from an SMT-LIB prelude text.
func ParsePreludeSigs(text string) map[string]FunSig {
	sigs := map[string]FunSig{}
	for _, form := range splitTop(stripSMTComments(text)) {
		if !strings.HasPrefix(form, "(") {
			continue
		}
		parts := splitTop(form[1 : len(form)-1])
		if len(parts) < 4 {
			if len(parts) == 3 && parts[0] == "declare-const" {
				sigs[parts[1]] = FunSig{Ret: parts[2]}
			}
			continue
		}
		switch parts[0] {
		case "declare-fun":
			var args []string
			if parts[2] != "()" {
				args = splitTop(parts[2][1 : len(parts[2])-1])
			}
			sigs[parts[1]] = FunSig{Args: args, Ret: parts[3]}
		case "define-fun", "define-fun-rec":
			var args []string
			if parts[2] != "()" {
				for _, a := range splitTop(parts[2][1 : len(parts[2])-1]) {
					ap := splitTop(a[1 : len(a)-1])
					args = append(args, ap[1])
				}
			}
			sigs[parts[1]] = FunSig{Args: args, Ret: parts[3]}
		}
	}
	return sigs
}

func stripSMTComments(s string) string {
	var b strings.Builder
	for _, line := range strings.Split(s, "\n") {
		if i := strings.Index(line, ";"); i >= 0 {
			line = line[:i]
		}
		b.WriteString(line)
		b.WriteString("\n")
	}
	return b.String()
}

// ParsePreludeLiterals reads "; literal "text" NAME" directives.
func ParsePreludeLiterals(text string) map[string]string {
	out := map[string]string{}
	for _, line := range strings.Split(text, "\n") {
		line = strings.TrimSpace(line)
		if !strings.HasPrefix(line, "; literal ") {
			continue
		}
		rest := strings.TrimSpace(line[len("; literal "):])
		if !strings.HasPrefix(rest, "\"") {
			continue
		}
		j := strings.Index(rest[1:], "\"")
		if j < 0 {
			continue
		}
		txt := rest[1 : 1+j]
		name := strings.TrimSpace(rest[j+2:])
		out[txt] = name
	}
	return out
}

// evalSpecFns is EvalSpec with additional function symbols.
func evalSpecFns(n *Node, env SpecEnv, sigs map[string]FunSig, bound map[string]SV, xsigs map[string]FunSig, xsyms map[string]string) (sv SV, err error) {
	defer func() {
		if r := recover(); r != nil {
			err = fmt.Errorf("%v", r)
		}
	}()
	c := &evalCtx{env: env, sigs: sigs, bound: bound, xsigs: xsigs, xsyms: xsyms}
	if c.bound == nil {
		c.bound = map[string]SV{}
	}
	return c.eval(n), nil
}
