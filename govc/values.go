package main

import (
	"fmt"
	"go/types"
	"strings"

	"golang.org/x/tools/go/ssa"
)

type Value interface{}

// TV is an SMT term with its Go type.
type TV struct {
	T  string
	Ty types.Type
	M  *SliceMeta // optional memory-layout facts for []byte values
	Shrunk bool   // a non-byte slice value obtained by s[lo:hi]: it shares s's backing array and has spare capacity
}

// SliceMeta describes where a []byte value lives (used for frame obligations).
type SliceMeta struct {
	Cap    string // capacity term ("" = unknown fresh)
	Owner  string // "caller", "local"
	Cell   int    // backing cell for local arrays (-1 none)
	Root   string // name of the caller-owned root object (parameter) for reports
	SubOff string // offset inside root
}

// CtxV is a context value: a store handle.
type CtxV struct {
	H   int
	Gas int // gas meter id
}

// ObjV is a symbolic object identified by its access path (keeper, external keepers, codecs).
type ObjV struct {
	Path string
	Ty   types.Type
	Over *objOver // fields written by the code under verification (an object built by a constructor), nil otherwise
}

// objOver: the fields a constructor has stored into a freshly allocated object; immutable once shared (copied on write).
type objOver struct{ f map[int]Value }

type PathElem struct {
	Field   int
	Index   string
	IsIndex bool
	Deref   bool // through a pointer held as (Opt T) inside the cell's value
}

// PtrV points into a heap cell.
type PtrV struct {
	Cell int
	Path []PathElem
}

// ElemPtr points to an element of an immutable sequence value.
type ElemPtr struct {
	Seq   TV
	Index string
}

type CloV struct {
	Fn   *ssa.Function
	Free []Value
}
type FnV struct{ Fn *ssa.Function }
type TupV []Value
type GlobalPtr struct{ G *ssa.Global }

// CommitV is the write-back closure returned by CacheContext.
type CommitV struct{ Child, Parent int }

// EvV is an sdk.Event under construction.
type EvV struct {
	Ty string
	KV [][2]string
}

// MapIterV iterates a Go map in an arbitrary order.
type MapIterV struct {
	Map     Value
	M0      string // the map value when the iteration started
	ID      string
	PosCell int
	KS, VS  string
}

// NilFnV is a nil function value.
type NilFnV struct{}

// BuiltinV is a Go builtin function value.
type BuiltinV struct{ Name string }

// BoundV is a bound method closure on a symbolic object (e.g. handler returned by a router).
type BoundV struct {
	Recv Value
	Name string
}

type Event struct {
	Ty   string
	KV   [][2]string
	None bool // in expectations: no event of this type
}

type Store struct {
	Parent int
	G      map[string]string
	Sorts  map[string]string
	Epoch  int
	Events []Event
	EvOpaque bool
	Havocked bool
	AnteRan  bool
}

type State struct {
	pc     []string
	cells  map[int]Value
	cellTy map[int]types.Type
	stores map[int]*Store
	trace  []string
	gomaps map[int]bool
	recovering bool
	panicVal   string
	walks      int
	gasCharged [][2]string
	hookCalls  []HookCall
	hookFailed bool
	readOnly   map[int]bool // cells that are detached copies of something the engine cannot address: stores are rejected
	lghost     map[string]LGhost // loop ghost sequences of the loops entered on this path (spec name -> symbol)
	hookCount  string // SMT Int: number of bridge-hook notifications sent (symbolic across loops)
	nextCalled int
	depositCalls int
	depositErrs []string
	calls       []CallRec
}

// CallRec records a modular (by-contract) call for $called/$arg/$ret in postconditions.
type CallRec struct {
	Name string
	Args []Value
	Rets []Value
	Pre  *State // state in which the call was made ($at)
}

// HookCall records an invocation of the configured bridge hook.
type HookCall struct {
	H      int // context handle the notification was sent on
	Name   string
	Bridge string
	Cfg    TV
}

func (s *State) Clone() *State {
	n := &State{pc: append([]string(nil), s.pc...), cells: make(map[int]Value, len(s.cells)), cellTy: s.cellTy,
		stores: make(map[int]*Store, len(s.stores)), trace: append([]string(nil), s.trace...), recovering: s.recovering, panicVal: s.panicVal, walks: s.walks, gasCharged: append([][2]string(nil), s.gasCharged...), hookCalls: append([]HookCall(nil), s.hookCalls...), hookFailed: s.hookFailed, hookCount: s.hookCount, lghost: cloneLGhost(s.lghost), readOnly: cloneIntSet(s.readOnly), nextCalled: s.nextCalled, depositCalls: s.depositCalls, depositErrs: append([]string(nil), s.depositErrs...), calls: append([]CallRec(nil), s.calls...)}
	for k, v := range s.cells {
		n.cells[k] = v
	}
	for k, st := range s.stores {
		ns := &Store{Parent: st.Parent, G: make(map[string]string, len(st.G)), Sorts: st.Sorts, Epoch: st.Epoch, EvOpaque: st.EvOpaque, Havocked: st.Havocked, AnteRan: st.AnteRan}
		for a, b := range st.G {
			ns.G[a] = b
		}
		ns.Events = append([]Event(nil), st.Events...)
		n.stores[k] = ns
	}
	return n
}

func (s *State) Assume(f string) {
	if f == "true" || f == "" {
		return
	}
	s.pc = append(s.pc, f)
}

func describe(v Value) string {
	switch x := v.(type) {
	case TV:
		return fmt.Sprintf("TV(%s : %v)", trunc(x.T, 80), x.Ty)
	case ObjV:
		return "Obj(" + x.Path + ")"
	case PtrV:
		return fmt.Sprintf("Ptr(%d,%v)", x.Cell, x.Path)
	case CtxV:
		return fmt.Sprintf("Ctx(%d)", x.H)
	case CloV:
		return "Clo(" + x.Fn.Name() + ")"
	case FnV:
		return "Fn(" + x.Fn.Name() + ")"
	case TupV:
		var ss []string
		for _, e := range x {
			ss = append(ss, describe(e))
		}
		return "(" + strings.Join(ss, ", ") + ")"
	case nil:
		return "<nil>"
	}
	return fmt.Sprintf("%T", v)
}

// LGhost is a history sequence of a loop: Sym(j) is the value of the ghost expression at the end of iteration j.
type LGhost struct {
	Sym, Sort string
}

func cloneLGhost(m map[string]LGhost) map[string]LGhost {
	if m == nil {
		return nil
	}
	n := make(map[string]LGhost, len(m))
	for k, v := range m {
		n[k] = v
	}
	return n
}

func cloneIntSet(m map[int]bool) map[int]bool {
	if m == nil {
		return nil
	}
	n := make(map[int]bool, len(m))
	for k, v := range m {
		n[k] = v
	}
	return n
}
