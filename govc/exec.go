package main

// Path-sensitive symbolic execution of go/ssa function bodies.

import (
	"fmt"
	"math/big"
	"os"
	"go/ast"
	"go/constant"
	"go/token"
	"go/types"
	"sort"
	"strings"

	"golang.org/x/tools/go/ssa"
)

type Outcome struct {
	st    *State
	vals  []Value
	panic bool
	names map[string]Value
}

type Frame struct {
	fn     *ssa.Function
	env    map[ssa.Value]Value
	names  map[string]Value
	heapVar map[string]token.Pos // names bound to the heap cell of a captured / address-taken variable: position of its declaration
	defers []deferred
	depth  int
	loops  map[*ssa.BasicBlock]bool
	isTop  bool
	walkInv *walkCtx
	parent *Frame
	xsigs  map[string]FunSig
	xsyms  map[string]string
	prevSt    map[*ssa.BasicBlock]*State           // state at the loop header of the current iteration (loop step clauses)
	prevNames map[*ssa.BasicBlock]map[string]Value
	origin    map[ssa.Value]PtrV // where a pointer held as (Opt T) was loaded from (stores through it update that place)
}

type deferred struct {
	call *ssa.Defer
	fn   Value
	args []Value
}

type Obligation struct {
	Name    string
	Func    string
	Kind    string
	Clause  string
	Assume  []string
	Goal    string
	Pos     string
	Props   []string
	Result  string
	Solver  string
	TimeS   float64
	Model   string
	Region  string // known-finding region tag if split
	Bounded bool
	Results map[string]string
	File    string // kept SMT query (sat / unknown answers)
	Retried bool   // every solver timed out in the first pass; decided (or not) in the second pass with three times the budget
}

type Exec struct {
	enc     *Enc
	L       *Loaded
	db      *ContractDB
	sigs    map[string]FunSig
	prelude string

	top      *ssa.Function
	topC     *Contract
	obls     []*Obligation
	nextCell int
	nextH    int
	lgN      int
	probe    *probeInfo
	gWritten map[*ssa.Global]bool
	aggFacts map[string]aggFact // facts about objects returned by connect's aggregator constructors (intrinsics_aggwire.go)
	warnings map[string]bool
	unverified string
	paths    int
	maxPaths int
	assumed  map[string]bool // assumed (extern) contracts used
	modular  map[string]bool // repository callee contracts used
	inlined  map[string]bool
	loopInfo map[*ssa.Function]*loopInfo
	entry    *State
	entryNames map[string]Value
	regions    map[string][]regionTerm // known-finding regions by obligation name (without the property prefix)
	covers   map[string]bool
	nopanic  bool
	prop     string
	ghostTy  map[string]ghostInfo
	cellBase int
	singleCoin map[string]TV
	lenHint    map[string]int64
	callerSeqs map[string]string
	topLets    map[string]SV
	steps      int
	gasMeters  map[int]GasV
	dynCtxArgs []ssa.Value
	dynCommits []ssa.Value // zero-argument, zero-result dynamic calls inside a loop/callback: possibly CacheContext commit functions
	localTypes map[string]types.Type
	freeBind   map[ssa.Value]Value
	bindState  *State
	nextGas    int
	epochs     int
}

type ghostInfo struct {
	ValTy types.Type // Go type of the value
	Opt   bool       // array of Opt / Opt item
	Arr   bool
	Sort  string
	KeyTy types.Type
}

type loopInfo struct {
	headers []*ssa.BasicBlock          // ordered
	ord     map[*ssa.BasicBlock]int
	body    map[*ssa.BasicBlock]map[*ssa.BasicBlock]bool
}

func (x *Exec) warn(format string, a ...interface{}) {
	x.warnings[fmt.Sprintf(format, a...)] = true
}

func (x *Exec) fail(format string, a ...interface{}) {
	if x.unverified == "" {
		x.unverified = fmt.Sprintf(format, a...)
	}
}

func (x *Exec) newCell(st *State, v Value, ty types.Type) int {
	x.nextCell++
	st.cells[x.nextCell] = v
	st.cellTy[x.nextCell] = ty
	return x.nextCell
}

func (x *Exec) loops(fn *ssa.Function) *loopInfo {
	if li, ok := x.loopInfo[fn]; ok {
		return li
	}
	li := &loopInfo{ord: map[*ssa.BasicBlock]int{}, body: map[*ssa.BasicBlock]map[*ssa.BasicBlock]bool{}}
	for _, b := range fn.Blocks {
		for _, s := range b.Succs {
			if s.Dominates(b) { // back edge b -> s
				if li.body[s] == nil {
					li.body[s] = map[*ssa.BasicBlock]bool{s: true}
					li.headers = append(li.headers, s)
				}
				// natural loop: nodes that reach b without passing through s
				var stack []*ssa.BasicBlock
				if !li.body[s][b] {
					li.body[s][b] = true
					stack = append(stack, b)
				}
				for len(stack) > 0 {
					n := stack[len(stack)-1]
					stack = stack[:len(stack)-1]
					for _, p := range n.Preds {
						if !li.body[s][p] {
							li.body[s][p] = true
							stack = append(stack, p)
						}
					}
				}
			}
		}
	}
	sort.Slice(li.headers, func(i, j int) bool { return li.headers[i].Index < li.headers[j].Index })
	for i, h := range li.headers {
		li.ord[h] = i
	}
	x.loopInfo[fn] = li
	return li
}

// ---------------------------------------------------------------------------------------

func (x *Exec) val(fr *Frame, st *State, v ssa.Value) Value {
	switch c := v.(type) {
	case *ssa.Const:
		return x.constVal(c)
	case *ssa.Global:
		return GlobalPtr{c}
	case *ssa.Function:
		return FnV{c}
	case *ssa.Builtin:
		return BuiltinV{c.Name()}
	}
	if r, ok := fr.env[v]; ok {
		return r
	}
	x.fail("use of undefined SSA value %s in %s", v.Name(), fr.fn.Name())
	return TV{T: x.enc.FreshConst("undef", x.enc.Sort(v.Type())), Ty: v.Type()}
}

func (x *Exec) constVal(c *ssa.Const) Value {
	t := c.Type()
	if c.Value == nil {
		// zero value / nil
		switch t.Underlying().(type) {
		case *types.Signature:
			return NilFnV{}
		}
		return TV{T: x.enc.Zero(t), Ty: t}
	}
	switch c.Value.Kind() {
	case constant.Bool:
		if constant.BoolVal(c.Value) {
			return TV{T: "true", Ty: t}
		}
		return TV{T: "false", Ty: t}
	case constant.Int:
		s := c.Value.ExactString()
		if strings.HasPrefix(s, "-") {
			s = "(- " + s[1:] + ")"
		}
		return TV{T: s, Ty: t}
	case constant.String:
		return TV{T: x.enc.Lit(constant.StringVal(c.Value)), Ty: t}
	case constant.Float:
		f, _ := constant.Float64Val(c.Value)
		return TV{T: fmt.Sprintf("%f", f), Ty: t}
	}
	return TV{T: x.enc.FreshConst("const", x.enc.Sort(t)), Ty: t}
}

func (x *Exec) freshTV(prefix string, t types.Type, st *State) TV {
	s := x.enc.Sort(t)
	c := x.enc.FreshConst(prefix, s)
	if st != nil {
		for _, f := range x.enc.TypeFacts(c, t, 0) {
			st.Assume(f)
		}
	}
	return TV{T: c, Ty: t}
}

func term(v Value) string {
	if t, ok := v.(TV); ok {
		return t.T
	}
	panic(fmt.Sprintf("expected SMT term, got %s", describe(v)))
}

// fieldOf selects field i of a value.
func (x *Exec) fieldOf(st *State, v Value, i int) Value {
	switch b := v.(type) {
	case TV:
		ty := b.Ty
		stt, ok := ty.Underlying().(*types.Struct)
		if !ok {
			x.fail("field of non-struct %s", ty)
			return b
		}
		return TV{T: x.enc.Sel(ty, i, b.T), Ty: stt.Field(i).Type()}
	case ObjV:
		return x.objField(st, b, i)
	case TupV:
		return b[i]
	}
	x.fail("fieldOf on %s", describe(v))
	return v
}

func deref(t types.Type) types.Type {
	if p, ok := t.Underlying().(*types.Pointer); ok {
		return p.Elem()
	}
	return t
}

// objField resolves a field of a symbolic object.
func (x *Exec) objField(st *State, o ObjV, i int) Value {
	ty := deref(o.Ty)
	stt, ok := ty.Underlying().(*types.Struct)
	if !ok {
		x.fail("object field on non-struct %s", ty)
		return o
	}
	f := stt.Field(i)
	if o.Over != nil {
		if v, ok := o.Over.f[i]; ok {
			return v
		}
	}
	path := o.Path + "." + f.Name()
	if f.Embedded() {
		path = o.Path // flatten embedded keepers
	}
	ft := f.Type()
	if namedPath(ft) == "cosmossdk.io/core/address.Codec" {
		// address codecs are identified by a small integer: 1 account, 2 validator, 3 consensus
		id := "1"
		switch {
		case strings.Contains(strings.ToLower(f.Name()), "validator"):
			id = "2"
		case strings.Contains(strings.ToLower(f.Name()), "consensus"):
			id = "3"
		}
		return TV{T: id, Ty: ft}
	}
	if isObjectType(ft) {
		return ObjV{Path: path, Ty: ft}
	}
	if _, ok := ft.Underlying().(*types.Map); ok {
		// process-memory Go map held by an object: modelled as ghost state of the root handle
		return ObjV{Path: path, Ty: ft}
	}
	if _, ok := ft.Underlying().(*types.Signature); ok {
		return ObjV{Path: path, Ty: ft}
	}
	// plain data field of an object: a symbolic constant
	name := sanitize("obj_" + path)
	x.enc.DeclConst(name, x.enc.Sort(ft))
	for _, fct := range x.enc.TypeFacts(name, ft, 0) {
		x.enc.Axiom(fct)
	}
	return TV{T: name, Ty: ft}
}

// isObjectType: types treated as opaque symbolic objects rather than SMT data.
func isObjectType(t types.Type) bool {
	t = types.Unalias(t)
	p := namedPath(deref(t))
	switch {
	case strings.HasPrefix(p, "cosmossdk.io/collections."):
		if strings.HasSuffix(p, ".Pair") {
			return false
		}
		return true
	case strings.HasSuffix(p, "/keeper.Keeper"), strings.HasSuffix(p, "/keeper.MsgServer"), strings.HasSuffix(p, "/keeper.Querier"),
		strings.HasSuffix(p, "/keeper.HostValidatorStore"), strings.HasSuffix(p, "/keeper.L2OracleHandler"),
		strings.HasSuffix(p, "baseapp.MsgServiceRouter"), strings.HasSuffix(p, "hook.BridgeHook"),
		strings.HasSuffix(p, "ante.MempoolFeeChecker"), strings.HasSuffix(p, "ante.RedundantBridgeDecorator"),
		strings.HasSuffix(p, "lanes.FreeLaneMatchHandler"), strings.HasSuffix(p, "types.EventManager"),
		strings.HasSuffix(p, "cosmos-sdk/types.Context"), p == "context.Context":
		return true
	}
	if it, ok := deref(t).Underlying().(*types.Interface); ok {
		if isErrorType(t) {
			return false
		}
		_ = it
		switch {
		case strings.HasSuffix(p, "Keeper"), strings.HasSuffix(p, "codec.Codec"),
			strings.HasSuffix(p, "BridgeHook"), strings.HasSuffix(p, "store.KVStoreService"), strings.HasSuffix(p, "log.Logger"),
			strings.HasSuffix(p, "GasMeter"), strings.HasSuffix(p, "ValidatorStore"), strings.HasSuffix(p, "PermKeeper"),
			strings.HasSuffix(p, "ChannelKeeper"), strings.HasSuffix(p, "codec.BinaryCodec"), strings.HasSuffix(p, "VoteAggregator"),
			strings.HasSuffix(p, "CurrencyPairStrategy"), strings.HasSuffix(p, "VoteExtensionCodec"), strings.HasSuffix(p, "ExtendedCommitCodec"):
			return true
		}
	}
	return false
}

// load reads through a pointer value.
func (x *Exec) load(st *State, p Value, ty types.Type) Value {
	switch q := p.(type) {
	case PtrV:
		v, ok := st.cells[q.Cell]
		if !ok {
			x.fail("load from unknown cell %d", q.Cell)
			return x.freshTV("badload", ty, st)
		}
		for _, pe := range q.Path {
			if pe.Deref {
				tv := v.(TV)
				v = TV{T: app("val", tv.T), Ty: deref(tv.Ty)}
				continue
			}
			if pe.IsIndex {
				if l, ok := v.(ListV); ok {
					var i int
					fmt.Sscan(pe.Index, &i)
					if !isNumeral(pe.Index) || i >= len(l.Elems) {
						x.fail("symbolic index into Go-side list")
						return nil
					}
					v = l.Elems[i]
					continue
				}
				tv := v.(TV)
				v = TV{T: simpSelect(app("gseq.arr", tv.T), pe.Index), Ty: elemType(tv.Ty)}
			} else {
				v = x.fieldOf(st, v, pe.Field)
			}
		}
		return v
	case ElemPtr:
		el := TV{T: simpSelect(app("gseq.arr", q.Seq.T), q.Index), Ty: elemType(q.Seq.Ty)}
		if st != nil {
			// the loaded element is a well-formed value of its type
			for _, f := range x.enc.TypeFacts(el.T, el.Ty, 1) {
				st.Assume(f)
			}
		}
		return el
	case BytePtr:
		x.declBytesOps()
		var bt string
		if q.View != nil {
			bt = x.viewTerm(st, *q.View).T
		} else {
			bt = q.Val.T
		}
		return TV{T: app("bat", bt, q.Index), Ty: types.Typ[types.Uint8]}
	case ListElemPtr:
		var i int
		fmt.Sscan(q.Index, &i)
		if isNumeral(q.Index) && i < len(q.L.Elems) {
			return q.L.Elems[i]
		}
	case GlobalPtr:
		return x.loadGlobal(st, q.G)
	case ObjV:
		// pointer to a symbolic object: the object itself
		return ObjV{Path: q.Path, Ty: deref(q.Ty)}
	case TV:
		// pointer-typed SMT value: (Opt struct)
		if pt, ok := q.Ty.Underlying().(*types.Pointer); ok {
			if strings.HasPrefix(x.enc.Sort(q.Ty), "(Opt") {
				return TV{T: app("val", q.T), Ty: pt.Elem()}
			}
		}
	}
	x.fail("load through %s", describe(p))
	return x.freshTV("badload", ty, st)
}

func elemType(t types.Type) types.Type {
	switch u := t.Underlying().(type) {
	case *types.Slice:
		return u.Elem()
	case *types.Array:
		return u.Elem()
	case *types.Pointer:
		return elemType(u.Elem())
	}
	return t
}

// addrIsWritten: the address (or a field / element address derived from it) is the target of a store.
func addrIsWritten(v ssa.Value, depth int) bool {
	refs := v.Referrers()
	if refs == nil || depth > 3 {
		return false
	}
	for _, r := range *refs {
		switch u := r.(type) {
		case *ssa.Store:
			if u.Addr == v {
				return true
			}
		case *ssa.FieldAddr:
			if addrIsWritten(u, depth+1) {
				return true
			}
		case *ssa.IndexAddr:
			if addrIsWritten(u, depth+1) {
				return true
			}
		}
	}
	return false
}

func (x *Exec) markReadOnly(st *State, c int) {
	if st.readOnly == nil {
		st.readOnly = map[int]bool{}
	}
	st.readOnly[c] = true
}

func (x *Exec) storeTo(st *State, p Value, v Value) {
	switch q := p.(type) {
	case PtrV:
		if st.readOnly[q.Cell] {
			x.fail("store through a pointer whose target the engine only holds as a detached copy (the write would be lost)")
			return
		}
		if len(q.Path) == 0 {
			st.cells[q.Cell] = v
			return
		}
		st.cells[q.Cell] = x.updPath(st, st.cells[q.Cell], q.Path, v)
		return
	case GlobalPtr:
		x.fail("store to global %s", q.G.Name())
		return
	case BytePtr:
		if q.View != nil && isNumeral(q.Index) {
			var i int64
			fmt.Sscan(q.Index, &i)
			x.writeView(st, *q.View, i, []seg{{kind: "byte", t: term(v), n: 1}})
			return
		}
		if q.Val != nil && q.Val.M != nil && q.Val.M.Owner == "caller" {
			x.frameWriteAt(st, q.Val.M.Root)
			return
		}
	}
	x.fail("store through %s", describe(p))
}

func (x *Exec) updPath(st *State, base Value, path []PathElem, v Value) Value {
	if len(path) == 0 {
		switch v.(type) {
		case ByteView, SliceRef:
			if _, isTV := base.(TV); isTV {
				return x.asTV(st, v)
			}
		}
		return v
	}
	pe := path[0]
	switch b := base.(type) {
	case TV:
		if pe.Deref {
			inner := TV{T: app("val", b.T), Ty: deref(b.Ty)}
			nv := x.updPath(st, inner, path[1:], v)
			return TV{T: app("Some", x.asTV(st, nv).T), Ty: b.Ty}
		}
		if pe.IsIndex {
			el := TV{T: simpSelect(app("gseq.arr", b.T), pe.Index), Ty: elemType(b.Ty)}
			nv := x.updPath(st, el, path[1:], v)
			return TV{T: app("mkseq", app("store", seqArr(b.T), pe.Index, x.asTV(st, nv).T), seqLen(b.T)), Ty: b.Ty}
		}
		inner := x.fieldOf(st, b, pe.Field)
		nv := x.updPath(st, inner, path[1:], v)
		nt := x.asTV(st, nv)
		return TV{T: x.enc.Upd(b.Ty, pe.Field, b.T, nt.T), Ty: b.Ty}
	case TupV:
		nb := append(TupV(nil), b...)
		nb[pe.Field] = x.updPath(st, b[pe.Field], path[1:], v)
		return nb
	case ListV:
		var i int
		fmt.Sscan(pe.Index, &i)
		if !pe.IsIndex || !isNumeral(pe.Index) {
			x.fail("symbolic index into Go-side list")
			return base
		}
		nl := ListV{Elems: append([]Value(nil), b.Elems...)}
		for len(nl.Elems) <= i {
			nl.Elems = append(nl.Elems, nil)
		}
		if len(path) == 1 {
			nl.Elems[i] = v
		} else {
			nl.Elems[i] = x.updPath(st, nl.Elems[i], path[1:], v)
		}
		return nl
	}
	if b, ok := base.(ObjV); ok && !pe.IsIndex && !pe.Deref && strings.HasPrefix(b.Path, "local_") {
		// a field of an object allocated by the function under verification (a constructor)
		if stt, ok := deref(b.Ty).Underlying().(*types.Struct); ok && pe.Field < stt.NumFields() {
			no := &objOver{f: map[int]Value{}}
			if b.Over != nil {
				for k, ov := range b.Over.f {
					no.f[k] = ov
				}
			}
			if len(path) == 1 {
				no.f[pe.Field] = v
			} else {
				no.f[pe.Field] = x.updPath(st, x.objField(st, b, pe.Field), path[1:], v)
			}
			return ObjV{Path: b.Path, Ty: b.Ty, Over: no}
		}
	}
	x.fail("update path on %s", describe(base))
	return base
}

func seqArr(t string) string {
	if strings.HasPrefix(t, "(mkseq ") {
		p := splitTop(t[1 : len(t)-1])
		if len(p) == 3 {
			return p[1]
		}
	}
	return app("gseq.arr", t)
}
func seqLen(t string) string {
	if strings.HasPrefix(t, "(mkseq ") {
		p := splitTop(t[1 : len(t)-1])
		if len(p) == 3 {
			return p[2]
		}
	}
	return app("gseq.len", t)
}

// simpSelect simplifies (select arr idx) over syntactic store chains with numeral indices.
func simpSelect(arr, idx string) string {
	if strings.HasPrefix(arr, "(gseq.arr (mkseq ") {
		arr = seqArr(arr[9 : len(arr)-1])
	}
	for isNumeral(idx) && strings.HasPrefix(arr, "(store ") {
		p := splitTop(arr[1 : len(arr)-1])
		if len(p) != 4 || !isNumeral(p[2]) {
			break
		}
		if p[2] == idx {
			return p[3]
		}
		arr = p[1]
	}
	if strings.HasPrefix(arr, "((as const ") {
		p := splitTop(arr[1 : len(arr)-1])
		if len(p) == 2 {
			return p[1]
		}
	}
	return app("select", arr, idx)
}

func isNumeral(s string) bool {
	if s == "" {
		return false
	}
	for _, c := range s {
		if c < '0' || c > '9' {
			return false
		}
	}
	return true
}

func (x *Exec) loadGlobal(st *State, g *ssa.Global) Value {
	ty := deref(g.Type())
	name := sanitize("G_" + shortPkg(g.Pkg.Pkg.Path()) + "_" + g.Name())
	p := namedPath(ty)
	if pt, ok := ty.Underlying().(*types.Pointer); ok {
		p = namedPath(pt.Elem())
	}
	if p == "cosmossdk.io/errors.Error" || isErrorType(ty) {
		// registered sentinel error: non-nil, distinct identity
		x.enc.DeclConst(name, "Int")
		x.enc.Axiom(fmt.Sprintf("(= %s %d)", name, x.sentinelID(name)))
		return TV{T: name, Ty: types.Universe.Lookup("error").Type()}
	}
	if isObjectType(ty) {
		return ObjV{Path: name, Ty: ty}
	}
	if _, ok := ty.Underlying().(*types.Signature); ok {
		return ObjV{Path: name, Ty: ty}
	}
	// map / slice / other package-level data: symbolic constant if the variable is never written outside init,
	// an arbitrary value at every load otherwise (process memory: other calls may have written it)
	if x.globalWritten(g) {
		return x.freshTV("mutglobal_"+g.Name(), ty, st)
	}
	if iv, ok := x.initValue(st, g, 0); ok {
		// never written outside its package initialiser, and the initialiser is a literal: that value
		return iv
	}
	x.enc.DeclConst(name, x.enc.Sort(ty))
	return TV{T: name, Ty: ty}
}

// globalWritten: some repository function other than a package initialiser stores to (an element / field of) the variable.
func (x *Exec) globalWritten(g *ssa.Global) bool {
	if x.gWritten == nil {
		x.gWritten = map[*ssa.Global]bool{}
		for _, pkg := range x.L.Prog.AllPackages() {
			if pkg.Pkg == nil || !strings.HasPrefix(pkg.Pkg.Path(), repoPrefix) {
				continue
			}
			var visit func(fn *ssa.Function)
			visit = func(fn *ssa.Function) {
				if fn == nil || fn.Blocks == nil || fn.Name() == "init" || strings.HasPrefix(fn.Name(), "init#") {
					return
				}
				for _, b := range fn.Blocks {
					for _, in := range b.Instrs {
						switch i := in.(type) {
						case *ssa.Store:
							if gg := globalRoot(i.Addr); gg != nil {
								x.gWritten[gg] = true
							}
						case *ssa.MapUpdate:
							if gg := globalRoot(i.Map); gg != nil {
								x.gWritten[gg] = true
							}
						}
					}
				}
				for _, af := range fn.AnonFuncs {
					visit(af)
				}
			}
			for _, m := range pkg.Members {
				switch mm := m.(type) {
				case *ssa.Function:
					visit(mm)
				case *ssa.Type:
					for _, t := range []types.Type{mm.Type(), types.NewPointer(mm.Type())} {
						ms := x.L.Prog.MethodSets.MethodSet(t)
						for k := 0; k < ms.Len(); k++ {
							visit(x.L.Prog.MethodValue(ms.At(k)))
						}
					}
				}
			}
		}
	}
	return x.gWritten[g]
}

var sentinelIDs = map[string]int{}

func (x *Exec) sentinelID(name string) int {
	if id, ok := sentinelIDs[name]; ok {
		return id
	}
	id := 1000 + len(sentinelIDs)
	sentinelIDs[name] = id
	return id
}

// ---------------------------------------------------------------------------------------

func (x *Exec) execFunc(st *State, fn *ssa.Function, args []Value, free []Value, depth int, isTop bool, parent ...*Frame) []Outcome {
	if fn.Blocks == nil {
		x.fail("no body for %s", fn.String())
		return nil
	}
	if depth > 12 {
		x.fail("inline depth exceeded at %s", fn.String())
		return nil
	}
	fr := &Frame{fn: fn, env: map[ssa.Value]Value{}, names: map[string]Value{}, depth: depth, loops: map[*ssa.BasicBlock]bool{}, isTop: isTop}
	if len(parent) > 0 {
		fr.parent = parent[0]
	}
	for i, p := range fn.Params {
		fr.env[p] = args[i]
		fr.names[p.Name()] = args[i]
	}
	for i, fv := range fn.FreeVars {
		fr.env[fv] = free[i]
		fr.names[fv.Name()] = free[i]
	}
	outs := x.execFrom(st, fr, fn.Blocks[0], 0, nil)
	return outs
}

func cloneNames(m map[string]Value) map[string]Value {
	n := make(map[string]Value, len(m))
	for k, v := range m {
		n[k] = v
	}
	return n
}

func (fr *Frame) fork() *Frame {
	n := *fr
	n.names = cloneNames(fr.names)
	if fr.heapVar != nil {
		n.heapVar = map[string]token.Pos{}
		for k, v := range fr.heapVar {
			n.heapVar[k] = v
		}
	}
	n.loops = map[*ssa.BasicBlock]bool{}
	for k, v := range fr.loops {
		n.loops[k] = v
	}
	n.defers = append([]deferred(nil), fr.defers...)
	return &n
}

func (x *Exec) execFrom(st *State, fr *Frame, blk *ssa.BasicBlock, idx int, prev *ssa.BasicBlock) []Outcome {
	if x.unverified != "" {
		return nil
	}
	instrs := blk.Instrs
	// phis
	if idx == 0 {
		var phiVals []Value
		n := 0
		for _, in := range instrs {
			phi, ok := in.(*ssa.Phi)
			if !ok {
				break
			}
			n++
			var v Value
			for i, p := range blk.Preds {
				if p == prev {
					v = x.val(fr, st, phi.Edges[i])
				}
			}
			phiVals = append(phiVals, v)
		}
		for i := 0; i < n; i++ {
			phi := instrs[i].(*ssa.Phi)
			fr.env[phi] = phiVals[i]
			if phi.Comment != "" {
				fr.names[phi.Comment] = phiVals[i]
			}
		}
		idx = n
	}
	for i := idx; i < len(instrs); i++ {
		in := instrs[i]
		switch ins := in.(type) {
		case *ssa.DebugRef:
			if id, ok := ins.Expr.(*ast.Ident); ok && x.L.IsVarIdent(id) {
				if v, ok := fr.env[ins.X]; ok {
					obj := x.L.VarObj(id)
					if !ins.IsAddr && obj != nil && fr.heapVar != nil {
						if p, has := fr.heapVar[id.Name]; has && p == obj.Pos() {
							// the variable lives in a heap cell (captured by a closure or address-taken): its current value is
							// read through the cell, a snapshot of an assigned value must not shadow it
							break
						}
					}
					fr.names[id.Name] = v
					if fr.heapVar != nil {
						delete(fr.heapVar, id.Name)
					}
				} else if _, isc := ins.X.(*ssa.Const); isc {
					fr.names[id.Name] = x.val(fr, st, ins.X)
				}
			}
		case *ssa.If:
			c := term(x.val(fr, st, ins.Cond))
			var outs []Outcome
			thenB, elseB := blk.Succs[0], blk.Succs[1]
			if os.Getenv("GOVC_DEBUG") != "" && fr.isTop {
				fmt.Fprintf(os.Stderr, "if at block %d %s: %s\n", blk.Index, x.pos(ins.Pos()), trunc(c, 100))
			}
			if c != "false" {
				s1 := st.Clone()
				s1.Assume(c)
				if x.feasible(s1) {
					outs = append(outs, x.transfer(s1, fr.fork(), blk, thenB)...)
				}
			}
			if c != "true" {
				s2 := st
				s2.Assume(not(c))
				if x.feasible(s2) {
					outs = append(outs, x.transfer(s2, fr.fork(), blk, elseB)...)
				}
			}
			return outs
		case *ssa.Jump:
			return x.transfer(st, fr, blk, blk.Succs[0])
		case *ssa.Return:
			var vals []Value
			for _, r := range ins.Results {
				vals = append(vals, x.val(fr, st, r))
			}
			return x.finish(st, fr, vals)
		case *ssa.Panic:
			st.trace = append(st.trace, "panic@"+x.pos(ins.Pos()))
			return x.panicOut(st, fr, "explicit")
		case *ssa.RunDefers:
			outs := x.runDefers(st, fr, false)
			var res []Outcome
			for _, o := range outs {
				res = append(res, x.execFrom(o.st, fr, blk, i+1, prev)...)
			}
			return res
		case *ssa.Defer:
			d := deferred{call: ins}
			if !ins.Call.IsInvoke() {
				d.fn = x.val(fr, st, ins.Call.Value)
			}
			for _, a := range ins.Call.Args {
				d.args = append(d.args, x.val(fr, st, a))
			}
			fr.defers = append(fr.defers, d)
		case *ssa.Call:
			results := x.call(st, fr, ins)
			if len(results) == 0 && os.Getenv("GOVC_DEBUG") != "" {
				fmt.Fprintf(os.Stderr, "call with no outcome: %s at %s (unverified=%q)\n", ins.String(), x.pos(ins.Pos()), x.unverified)
			}
			if len(results) == 1 && !results[0].panic {
				st = results[0].st
				fr.env[ins] = one(results[0].vals)
				continue
			}
			var outs []Outcome
			for _, r := range results {
				if r.panic {
					outs = append(outs, x.panicOut(r.st, fr.fork(), "callee")...)
					continue
				}
				f2 := fr.fork()
				f2.env[ins] = one(r.vals)
				// env is shared between forks (SSA: defs dominate uses) but this call's result differs per outcome:
				// re-bind right before continuing each outcome
				outs = append(outs, x.resume(r.st, f2, blk, i+1, prev, ins, one(r.vals))...)
			}
			return outs
		default:
			x.step(st, fr, in)
			if x.unverified != "" {
				return nil
			}
		}
	}
	return nil
}

func (x *Exec) resume(st *State, fr *Frame, blk *ssa.BasicBlock, idx int, prev *ssa.BasicBlock, ins ssa.Value, v Value) []Outcome {
	fr.env[ins] = v
	return x.execFrom(st, fr, blk, idx, prev)
}

func one(vals []Value) Value {
	if len(vals) == 0 {
		return nil
	}
	if len(vals) == 1 {
		return vals[0]
	}
	return TupV(vals)
}

// feasible prunes syntactically contradictory path conditions (cheap check only).
func (x *Exec) feasible(st *State) bool {
	last := st.pc[len(st.pc)-1]
	if last == "false" {
		return false
	}
	neg := not(last)
	for _, f := range st.pc[:len(st.pc)-1] {
		if f == neg {
			return false
		}
	}
	return true
}

func (x *Exec) pos(p token.Pos) string {
	if !p.IsValid() {
		return "?"
	}
	ps := x.L.Fset.Position(p)
	return fmt.Sprintf("%s:%d", shortFile(ps.Filename), ps.Line)
}

func shortFile(f string) string {
	return strings.TrimPrefix(f, "/repo/")
}

func (x *Exec) finish(st *State, fr *Frame, vals []Value) []Outcome {
	if fr.isTop {
		x.paths++
	}
	x.steps++
	if x.paths > x.maxPaths || x.steps > 50*x.maxPaths {
		x.fail("path cap %d exceeded in %s", x.maxPaths, x.top.Name())
		return nil
	}
	return []Outcome{{st: st, vals: vals, names: fr.names}}
}

// panicOut handles a panic raised inside frame fr.
func (x *Exec) panicOut(st *State, fr *Frame, why string) []Outcome {
	if fr.fn.Recover != nil && len(fr.defers) > 0 {
		st.recovering = true
		outs := x.runDefers(st, fr, true)
		var res []Outcome
		for _, o := range outs {
			if o.st.recovering {
				// no deferred function called recover(): keep panicking
				res = append(res, Outcome{st: o.st, panic: true, names: fr.names})
				continue
			}
			res = append(res, x.execFrom(o.st, fr, fr.fn.Recover, 0, nil)...)
		}
		return res
	}
	x.paths++
	return []Outcome{{st: st, panic: true, names: fr.names}}
}

func (x *Exec) runDefers(st *State, fr *Frame, panicking bool) []Outcome {
	cur := []Outcome{{st: st}}
	ds := fr.defers
	fr.defers = nil
	for i := len(ds) - 1; i >= 0; i-- {
		d := ds[i]
		var next []Outcome
		for _, o := range cur {
			rs := x.callValue(o.st, fr, d.fn, d.args, &d.call.Call, d.call)
			for _, r := range rs {
				if r.panic {
					x.fail("panic inside deferred call in %s", fr.fn.Name())
				}
				next = append(next, Outcome{st: r.st})
			}
		}
		cur = next
	}
	return cur
}

// transfer moves control along the edge from -> to, handling loop headers.
func (x *Exec) transfer(st *State, fr *Frame, from, to *ssa.BasicBlock) []Outcome {
	if x.probe != nil && x.probe.sameFrame(fr) && to != x.probe.header && !x.probe.body[to] {
		if os.Getenv("GOVC_DEBUG") != "" {
			fmt.Fprintf(os.Stderr, "probe: leaving loop %d -> %d\n", from.Index, to.Index)
		}
		return nil // probe of a loop body: paths that leave the loop are not of interest
	}
	li := x.loops(fr.fn)
	if _, isHeader := li.body[to]; isHeader {
		return x.enterLoop(st, fr, from, to, li)
	}
	return x.execFrom(st, fr, to, 0, from)
}

// ---------------------------------------------------------------------------------------
// straight-line instructions

func (x *Exec) step(st *State, fr *Frame, in ssa.Instruction) {
	e := x.enc
	switch ins := in.(type) {
	case *ssa.Alloc:
		ty := deref(ins.Type())
		var init Value
		if np := namedPath(ty); strings.HasPrefix(np, "cosmossdk.io/collections.Range") || strings.HasPrefix(np, "cosmossdk.io/collections.PairRange") {
			// new(collections.Range[K]): the unrestricted range, refined by its builder methods
			init = RangeV{}
		} else if isObjectType(ty) {
			init = ObjV{Path: "local_" + ins.Comment, Ty: ty}
		} else if isCtxType(ty) {
			init = CtxV{H: -1}
		} else if at, ok := ty.Underlying().(*types.Array); ok && isListElem(at.Elem()) {
			init = ListV{Elems: make([]Value, at.Len())}
		} else if isListElemStruct(ty) {
			init = ListV{}
		} else {
			init = TV{T: e.Zero(ty), Ty: ty}
		}
		c := x.newCell(st, init, ty)
		fr.env[ins] = PtrV{Cell: c}
		if ins.Comment != "" {
			fr.names[ins.Comment] = PtrV{Cell: c}
			if ins.Pos().IsValid() {
				if fr.heapVar == nil {
					fr.heapVar = map[string]token.Pos{}
				}
				fr.heapVar[ins.Comment] = ins.Pos()
			}
		}
	case *ssa.Store:
		x.storeTo(st, x.val(fr, st, ins.Addr), x.val(fr, st, ins.Val))
	case *ssa.UnOp:
		xv := x.val(fr, st, ins.X)
		switch ins.Op {
		case token.MUL:
			fr.env[ins] = x.load(st, xv, ins.Type())
			if src, ok := xv.(PtrV); ok {
				if tv, ok := fr.env[ins].(TV); ok && tv.Ty != nil {
					_, isPtr := tv.Ty.Underlying().(*types.Pointer)
					_, isSlice := tv.Ty.Underlying().(*types.Slice)
					if (isPtr && strings.HasPrefix(e.Sort(tv.Ty), "(Opt")) || (isSlice && strings.HasPrefix(e.Sort(tv.Ty), "(GSeq")) {
						if fr.origin == nil {
							fr.origin = map[ssa.Value]PtrV{}
						}
						fr.origin[ins] = src
					}
				}
			}
		case token.NOT:
			fr.env[ins] = TV{T: not(term(xv)), Ty: ins.Type()}
		case token.SUB:
			fr.env[ins] = TV{T: x.wrap(app("-", term(xv)), ins.Type()), Ty: ins.Type()}
		default:
			x.fail("unsupported unary %s", ins.Op)
		}
	case *ssa.BinOp:
		fr.env[ins] = x.binop(st, ins, x.val(fr, st, ins.X), x.val(fr, st, ins.Y))
	case *ssa.FieldAddr:
		b := x.val(fr, st, ins.X)
		switch p := b.(type) {
		case PtrV:
			np := PtrV{Cell: p.Cell, Path: append(append([]PathElem(nil), p.Path...), PathElem{Field: ins.Field})}
			fr.env[ins] = np
		case ObjV:
			// address of a field of a symbolic object: resolve eagerly
			fv := x.objField(st, p, ins.Field)
			if o, ok := fv.(ObjV); ok {
				fr.env[ins] = ObjV{Path: o.Path, Ty: types.NewPointer(o.Ty)}
			} else {
				c := x.newCell(st, fv, fv.(TV).Ty)
				x.markReadOnly(st, c)
				fr.env[ins] = PtrV{Cell: c}
			}
		case TV:
			// pointer held as (Opt struct) inside another value
			if pt, ok := p.Ty.Underlying().(*types.Pointer); ok && strings.HasPrefix(e.Sort(p.Ty), "(Opt") {
				if o, ok := fr.origin[ins.X]; ok {
					// still the pointer that was loaded from there: address the field in place, so that stores reach it
					if cur, ok := x.load(st, o, nil).(TV); ok && cur.T == p.T {
						np := PtrV{Cell: o.Cell, Path: append(append([]PathElem(nil), o.Path...), PathElem{Deref: true}, PathElem{Field: ins.Field})}
						fr.env[ins] = np
						break
					}
				}
				// origin unknown: a detached read-only copy (a store through it is rejected, not dropped)
				sv := TV{T: app("val", p.T), Ty: pt.Elem()}
				fv := x.fieldOf(st, sv, ins.Field)
				c := x.newCell(st, fv, fv.(TV).Ty)
				x.markReadOnly(st, c)
				fr.env[ins] = PtrV{Cell: c}
			} else {
				x.fail("FieldAddr on %s", describe(b))
			}
		case ElemPtr:
			// address of a field of an element of an immutable sequence value: read-only, resolved eagerly
			el := x.load(st, p, nil)
			fv := x.fieldOf(st, el, ins.Field)
			if tv, ok := fv.(TV); ok {
				c := x.newCell(st, tv, tv.Ty)
				x.markReadOnly(st, c)
				fr.env[ins] = PtrV{Cell: c}
			} else {
				x.fail("FieldAddr on element: field is %s", describe(fv))
			}
		default:
			x.fail("FieldAddr on %s", describe(b))
		}
	case *ssa.Field:
		fr.env[ins] = x.fieldOf(st, x.val(fr, st, ins.X), ins.Field)
	case *ssa.IndexAddr:
		b := x.val(fr, st, ins.X)
		idx := term(x.val(fr, st, ins.Index))
		switch p := b.(type) {
		case PtrV:
			cur := x.load(st, p, nil)
			if tv, ok := cur.(TV); ok && e.Sort(tv.Ty) == "Bytes" && len(p.Path) == 0 {
				n := intLit(0)
				if a, ok := tv.Ty.Underlying().(*types.Array); ok {
					n = intLit(a.Len())
				}
				fr.env[ins] = BytePtr{View: &ByteView{Cell: p.Cell, Off: 0, Len: n, Cap: n, Ty: tv.Ty}, Index: idx}
			} else {
				fr.env[ins] = PtrV{Cell: p.Cell, Path: append(append([]PathElem(nil), p.Path...), PathElem{IsIndex: true, Index: idx})}
			}
		case ByteView:
			fr.env[ins] = BytePtr{View: &p, Index: idx}
		case TV:
			if e.Sort(p.Ty) == "Bytes" {
				fr.env[ins] = BytePtr{Val: &p, Index: idx}
			} else {
				x.boundsCheck(st, fr, idx, seqLen(p.T), ins.Pos())
				if o, ok := fr.origin[ins.X]; ok && addrIsWritten(ins, 0) {
					// the element is written through this address and the slice was loaded from an addressable place and is
					// still the value stored there: address the element in place, so that the store is not lost
					if cur, ok := x.load(st, o, nil).(TV); ok && cur.T == p.T {
						fr.env[ins] = PtrV{Cell: o.Cell, Path: append(append([]PathElem(nil), o.Path...), PathElem{IsIndex: true, Index: idx})}
						break
					}
				}
				fr.env[ins] = ElemPtr{Seq: p, Index: idx}
			}
		case SliceRef:
			cur := st.cells[p.Cell].(TV)
			x.boundsCheck(st, fr, idx, seqLen(cur.T), ins.Pos())
			fr.env[ins] = PtrV{Cell: p.Cell, Path: []PathElem{{IsIndex: true, Index: idx}}}
		case ListV:
			fr.env[ins] = ListElemPtr{L: p, Index: idx}
		case GlobalPtr:
			// element of a package-level array: a snapshot of the variable in a local cell (a variable that is written
			// outside init holds an arbitrary value at every load; writes to the snapshot do not persist - D4 of C18
			// reports such writes, here only the value that is read matters)
			if gv, ok := x.loadGlobal(st, p.G).(TV); ok {
				c := x.newCell(st, gv, gv.Ty)
				if e.Sort(gv.Ty) == "Bytes" {
					x.fail("IndexAddr on package-level byte array %s", p.G.Name())
				} else {
					fr.env[ins] = PtrV{Cell: c, Path: []PathElem{{IsIndex: true, Index: idx}}}
				}
			} else {
				x.fail("IndexAddr on %s", describe(b))
			}
		default:
			x.fail("IndexAddr on %s", describe(b))
		}
	case *ssa.Index:
		b := x.val(fr, st, ins.X)
		idx := term(x.val(fr, st, ins.Index))
		tv := x.asTV(st, b)
		if e.Sort(tv.Ty) == "Bytes" {
			fr.env[ins] = TV{T: app("bat", tv.T, idx), Ty: ins.Type()}
			x.declBytesOps()
		} else {
			fr.env[ins] = TV{T: simpSelect(app("gseq.arr", tv.T), idx), Ty: ins.Type()}
		}
	case *ssa.Extract:
		t := x.val(fr, st, ins.Tuple)
		tup, ok := t.(TupV)
		if !ok {
			x.fail("extract from %s", describe(t))
			return
		}
		fr.env[ins] = tup[ins.Index]
	case *ssa.ChangeType:
		v := x.val(fr, st, ins.X)
		if tv, ok := v.(TV); ok {
			fr.env[ins] = TV{T: tv.T, Ty: ins.Type(), M: tv.M}
		} else {
			fr.env[ins] = v
		}
	case *ssa.ChangeInterface:
		fr.env[ins] = x.val(fr, st, ins.X)
	case *ssa.MakeInterface:
		fr.env[ins] = x.makeIface(st, x.val(fr, st, ins.X), ins.X.Type(), ins.Type())
	case *ssa.Convert:
		fr.env[ins] = x.convert(st, x.val(fr, st, ins.X), ins.X.Type(), ins.Type())
	case *ssa.TypeAssert:
		x.typeAssert(st, fr, ins)
	case *ssa.MakeClosure:
		var free []Value
		for _, b := range ins.Bindings {
			free = append(free, x.val(fr, st, b))
		}
		fr.env[ins] = CloV{Fn: ins.Fn.(*ssa.Function), Free: free}
	case *ssa.MakeSlice:
		ty := ins.Type()
		n := term(x.val(fr, st, ins.Len))
		if e.Sort(ty) == "Bytes" {
			capT := term(x.val(fr, st, ins.Cap))
			var z string
			if isNumeral(n) {
				var nn int64
				fmt.Sscan(n, &nn)
				z = e.ZeroBytes(nn)
			} else {
				z = e.FreshConst("zeros", "Bytes")
				st.Assume(eq(app("blen", z), n))
			}
			c := x.newCell(st, TV{T: z, Ty: ty}, ty)
			fr.env[ins] = ByteView{Cell: c, Off: 0, Len: n, Cap: capT, Ty: ty}
			return
		}
		if isListElem(elemType(ty)) {
			fr.env[ins] = ListV{}
			return
		}
		et := elemType(ty)
		zero := fmt.Sprintf("(mkseq ((as const (Array Int %s)) %s) %s)", e.Sort(et), e.Zero(et), n)
		c := x.newCell(st, TV{T: zero, Ty: ty}, ty)
		fr.env[ins] = SliceRef{Cell: c}
	case *ssa.Slice:
		x.sliceOp(st, fr, ins)
	case *ssa.MakeMap:
		ty := ins.Type()
		c := x.newCell(st, TV{T: e.Zero(ty), Ty: ty}, ty)
		fr.env[ins] = MapRef{Cell: c, Ty: ty}
	case *ssa.MapUpdate:
		m := x.val(fr, st, ins.Map)
		k := term(x.asTV(st, x.val(fr, st, ins.Key)))
		v := term(x.asTV(st, x.val(fr, st, ins.Value)))
		x.mapUpdate(st, m, k, app("Some", v))
	case *ssa.Lookup:
		x.lookup(st, fr, ins)
	case *ssa.Range:
		fr.env[ins] = x.newMapIter(st, fr, x.val(fr, st, ins.X))
	case *ssa.Next:
		x.nextIter(st, fr, ins)
	case *ssa.SliceToArrayPointer:
		v := x.asTV(st, x.val(fr, st, ins.X))
		c := x.newCell(st, TV{T: v.T, Ty: deref(ins.Type())}, deref(ins.Type()))
		fr.env[ins] = PtrV{Cell: c}
	default:
		x.fail("unsupported instruction %T in %s", in, fr.fn.Name())
	}
}

// SliceRef is a locally created, mutable non-byte slice backed by a heap cell.
type SliceRef struct{ Cell int }

// MapRef is a Go map backed by a heap cell holding an SMT array.
type MapRef struct {
	Cell int
	Ty   types.Type
}

// BytePtr is the address of one byte inside a byte string.
type BytePtr struct {
	View  *ByteView
	Val   *TV
	Index string
}

// ListElemPtr addresses an element of an immutable Go-side list.
type ListElemPtr struct {
	L     ListV
	Index string
}

func isListElem(t types.Type) bool {
	if _, ok := t.Underlying().(*types.Interface); ok && !isErrorType(t) {
		return true
	}
	return isListElemStruct(t)
}

func isListElemStruct(t types.Type) bool {
	switch namedPath(t) {
	case "github.com/cosmos/cosmos-sdk/types.Attribute", "github.com/cosmos/cosmos-sdk/types.Event", "github.com/cometbft/cometbft/abci/types.Event":
		return true
	}
	return false
}

func isCtxType(t types.Type) bool {
	p := namedPath(t)
	return p == "context.Context" || p == "github.com/cosmos/cosmos-sdk/types.Context"
}

// asTV coerces reference-like values to their current SMT term.
func (x *Exec) asTV(st *State, v Value) TV {
	switch t := v.(type) {
	case TV:
		return t
	case SliceRef:
		return st.cells[t.Cell].(TV)
	case MapRef:
		return st.cells[t.Cell].(TV)
	case ByteView:
		return x.viewTerm(st, t)
	case IfaceV:
		return x.asTV(st, t.V)
	case PtrV:
		// pointer to struct cell used as a value (e.g. *Msg passed to a contract): wrap as Some(struct)
		cur := x.load(st, t, nil)
		if tv, ok := cur.(TV); ok {
			return TV{T: app("Some", tv.T), Ty: types.NewPointer(tv.Ty)}
		}
	case EvV:
		return TV{T: "opaque_event", Ty: nil}
	}
	x.fail("expected data value, got %s", describe(v))
	return TV{T: "0", Ty: types.Typ[types.Int]}
}

func (x *Exec) boundsCheck(st *State, fr *Frame, idx, length string, pos token.Pos) {
	// index-out-of-range is a panic: treated like any other abort unless nopanic is requested
	if x.nopanic {
		x.addObl("safe", "index_in_range@"+x.pos(pos), "", st, and(app(">=", idx, "0"), app("<", idx, length)), nil)
	}
	st.Assume(and(app(">=", idx, "0"), app("<", idx, length)))
}

func (x *Exec) wrap(t string, ty types.Type) string {
	b, ok := ty.Underlying().(*types.Basic)
	if !ok {
		return t
	}
	switch namedPath(ty) {
	case "time.Duration":
		return t
	}
	lo, hi := intRange(b)
	if lo == "" {
		return t
	}
	if isNumeral(t) {
		return t
	}
	if lo == "0" {
		return app("mod", t, hi)
	}
	// signed: ((t + hi) mod 2hi) - hi
	return app("-", app("mod", app("+", t, hi), app("*", "2", hi)), hi)
}

func (x *Exec) binop(st *State, ins *ssa.BinOp, a, b Value) Value {
	ty := ins.Type()
	// comparisons against nil / between objects
	switch ins.Op {
	case token.EQL, token.NEQ:
		t := x.equal(st, a, b, ins.X.Type())
		if ins.Op == token.NEQ {
			t = not(t)
		}
		return TV{T: t, Ty: ty}
	}
	at, bt := x.asTV(st, a), x.asTV(st, b)
	s := x.enc.Sort(ins.X.Type())
	switch ins.Op {
	case token.ADD:
		if s == "Bytes" {
			r := app("bcat", at.T, bt.T)
			x.enc.GroundBytes(r)
			return TV{T: r, Ty: ty}
		}
		if s == "Real" {
			return TV{T: app("+", at.T, bt.T), Ty: ty}
		}
		return TV{T: x.wrapAdd(app("+", at.T, bt.T), ty), Ty: ty}
	case token.SUB:
		return TV{T: x.wrapAdd(app("-", at.T, bt.T), ty), Ty: ty}
	case token.MUL:
		return TV{T: x.wrap(app("*", at.T, bt.T), ty), Ty: ty}
	case token.QUO:
		if s == "Real" {
			return TV{T: app("/", at.T, bt.T), Ty: ty}
		}
		return TV{T: app("div", at.T, bt.T), Ty: ty}
	case token.REM:
		return TV{T: app("mod", at.T, bt.T), Ty: ty}
	case token.LSS, token.LEQ, token.GTR, token.GEQ:
		op := map[token.Token]string{token.LSS: "<", token.LEQ: "<=", token.GTR: ">", token.GEQ: ">="}[ins.Op]
		if s == "Bytes" {
			x.declBytesOps()
			c := x.bcmp(at.T, bt.T)
			return TV{T: app(op, c, "0"), Ty: ty}
		}
		return TV{T: app(op, at.T, bt.T), Ty: ty}
	case token.LAND, token.AND:
		if s == "Bool" {
			return TV{T: and(at.T, bt.T), Ty: ty}
		}
	case token.LOR, token.OR:
		if s == "Bool" {
			return TV{T: or(at.T, bt.T), Ty: ty}
		}
	}
	x.fail("unsupported binop %s on %s", ins.Op, ins.X.Type())
	return x.freshTV("binop", ty, st)
}

// wrapAdd: exact wrap-around for +,- on 64-bit integers using one ite.
func (x *Exec) wrapAdd(t string, ty types.Type) string {
	b, ok := ty.Underlying().(*types.Basic)
	if !ok || namedPath(ty) == "time.Duration" {
		return t
	}
	lo, hi := intRange(b)
	if lo == "" {
		return t
	}
	if hi == two64 {
		return app("wrap.u64", t)
	}
	if hi == two63 {
		return app("wrap.i64", t)
	}
	if lo == "0" {
		return ite(app("<", t, "0"), app("+", t, hi), ite(app(">=", t, hi), app("-", t, hi), t))
	}
	span := app("*", "2", hi)
	return ite(app("<", t, lo), app("+", t, span), ite(app(">=", t, hi), app("-", t, span), t))
}

func (x *Exec) declBytesOps() {
	e := x.enc
	e.DeclFun("bcmp", []string{"Bytes", "Bytes"}, "Int")
	e.DeclFun("bat", []string{"Bytes", "Int"}, "Int")
}

// bcmp builds bytes.Compare(a,b) with ground instances of the total-order axioms (A-CMP).
func (x *Exec) bcmp(a, b string) string {
	x.declBytesOps()
	e := x.enc
	c, d := app("bcmp", a, b), app("bcmp", b, a)
	e.Axiom(and(app(">=", c, "(- 1)"), app("<=", c, "1")))
	e.Axiom(eq(eq(c, "0"), eq(a, b)))
	e.Axiom(eq(c, app("-", d)))
	return c
}

func (x *Exec) equal(st *State, a, b Value, ty types.Type) string {
	// function values: only nil-ness is comparable
	_, an := a.(NilFnV)
	_, bn := b.(NilFnV)
	if an || bn {
		if an && bn {
			return "true"
		}
		other := a
		if an {
			other = b
		}
		switch other.(type) {
		case BoundV, CloV, FnV, ObjV:
			return "false"
		}
	}
	// nil comparisons
	if isNilConst(a) {
		a, b = b, a
	}
	if isNilConst(b) {
		switch v := a.(type) {
		case TV:
			s := x.enc.Sort(v.Ty)
			switch {
			case isErrorType(v.Ty) || s == "Int":
				return eq(v.T, "0")
			case s == "Iface":
				return eq(v.T, "iface_nil")
			case s == "Bytes":
				// nil and empty byte slices are not distinguished (A-NIL)
				return eq(v.T, "bempty")
			case strings.HasPrefix(s, "(Opt"):
				return isNoneT(v.T, s)
			case strings.HasPrefix(s, "(GSeq"):
				x.enc.DeclFun("seqnil."+sanitize(s), []string{s}, "Bool")
				return app("seqnil."+sanitize(s), v.T)
			case strings.HasPrefix(s, "(Array"):
				return "false"
			}
		case PtrV, ObjV, CloV, FnV, CtxV, SliceRef, MapRef, BoundV, GasV, ByteView:
			return "false"
		case NilFnV:
			return "true"
		case nil:
			return "true"
		}
		x.fail("nil comparison of %s", describe(a))
		return "false"
	}
	at, bt := x.asTV(st, a), x.asTV(st, b)
	return eq(at.T, bt.T)
}

func isNilConst(v Value) bool {
	tv, ok := v.(TV)
	if !ok {
		return false
	}
	if tv.Ty == nil {
		return false
	}
	if b, ok := tv.Ty.Underlying().(*types.Basic); ok && b.Kind() == types.UntypedNil {
		return true
	}
	switch tv.Ty.Underlying().(type) {
	case *types.Interface:
		return tv.T == "0" && isErrorType(tv.Ty) || tv.T == "iface_nil"
	case *types.Pointer, *types.Slice, *types.Map, *types.Signature:
		return strings.HasPrefix(tv.T, "(as None") || tv.T == "bempty" && false
	}
	return false
}

func (x *Exec) makeIface(st *State, v Value, from, to types.Type) Value {
	if isErrorType(to) {
		// concrete error value -> error identity
		if tv, ok := v.(TV); ok {
			if x.enc.Sort(tv.Ty) == "Int" {
				return TV{T: tv.T, Ty: to}
			}
			// *errors.Error pointer etc.
			c := x.enc.FreshConst("errval", "Int")
			st.Assume(not(eq(c, "0")))
			return TV{T: c, Ty: to}
		}
		return v
	}
	switch t := v.(type) {
	case ObjV, CtxV, PtrV, CloV, FnV, EvV, SliceRef, MapRef:
		return IfaceV{V: v, Dyn: from}
	case TV:
		return IfaceV{V: t, Dyn: from}
	}
	return IfaceV{V: v, Dyn: from}
}

// IfaceV is an interface value with statically known dynamic type.
type IfaceV struct {
	V   Value
	Dyn types.Type
}

func (x *Exec) convert(st *State, v Value, from, to types.Type) Value {
	e := x.enc
	tv, ok := v.(TV)
	if !ok {
		return v
	}
	fs, ts := e.Sort(from), e.Sort(to)
	switch {
	case fs == "Int" && ts == "Int":
		fb, ok1 := from.Underlying().(*types.Basic)
		tb, ok2 := to.Underlying().(*types.Basic)
		if ok1 && ok2 {
			flo, fhi := intRange(fb)
			tlo, thi := intRange(tb)
			if flo == tlo && fhi == thi {
				return TV{T: tv.T, Ty: to}
			}
			if rangeWithin(flo, fhi, tlo, thi) {
				// widening conversion: the value is unchanged
				return TV{T: tv.T, Ty: to}
			}
			if isNumeral(tv.T) {
				return TV{T: tv.T, Ty: to}
			}
			return TV{T: x.wrap(tv.T, to), Ty: to}
		}
		return TV{T: tv.T, Ty: to}
	case fs == ts:
		return TV{T: tv.T, Ty: to, M: tv.M}
	case fs == "Int" && ts == "Real":
		return TV{T: app("to_real", tv.T), Ty: to}
	case fs == "Int" && ts == "Bytes":
		x.fail("integer to string conversion")
	}
	x.fail("unsupported conversion %s -> %s", from, to)
	return x.freshTV("conv", to, st)
}

func (x *Exec) typeAssert(st *State, fr *Frame, ins *ssa.TypeAssert) {
	v := x.val(fr, st, ins.X)
	to := ins.AssertedType
	switch iv := v.(type) {
	case IfaceV:
		ok := types.Identical(iv.Dyn, to)
		if _, isIface := to.Underlying().(*types.Interface); isIface {
			ok = types.Implements(iv.Dyn, to.Underlying().(*types.Interface))
		}
		if ins.CommaOk {
			if ok {
				fr.env[ins] = TupV{iv.V, TV{T: "true", Ty: types.Typ[types.Bool]}}
				if _, isIface := to.Underlying().(*types.Interface); isIface {
					fr.env[ins] = TupV{iv, TV{T: "true", Ty: types.Typ[types.Bool]}}
				}
			} else {
				fr.env[ins] = TupV{TV{T: x.enc.Zero(to), Ty: to}, TV{T: "false", Ty: types.Typ[types.Bool]}}
			}
			return
		}
		if ok {
			fr.env[ins] = iv.V
			if _, isIface := to.Underlying().(*types.Interface); isIface {
				fr.env[ins] = iv
			}
			return
		}
		x.fail("type assertion always fails")
	case TV:
		// symbolic interface value: dynamic type tag
		if x.enc.Sort(iv.Ty) == "Iface" {
			x.symTypeAssert(st, fr, ins, iv)
			return
		}
	case ObjV, CtxV:
		if ins.CommaOk {
			fr.env[ins] = TupV{v, TV{T: "true", Ty: types.Typ[types.Bool]}}
		} else {
			fr.env[ins] = v
		}
		return
	}
	x.fail("type assertion on %s", describe(v))
}

func (x *Exec) sliceOp(st *State, fr *Frame, ins *ssa.Slice) {
	b := x.val(fr, st, ins.X)
	var lo, hi string
	if ins.Low != nil {
		lo = term(x.val(fr, st, ins.Low))
	}
	if ins.High != nil {
		hi = term(x.val(fr, st, ins.High))
	}
	var tv TV
	switch p := b.(type) {
	case ListV:
		fr.env[ins] = p
		return
	case ByteView:
		tv = x.viewTerm(st, p)
	case PtrV:
		cur := x.load(st, p, nil)
		if l, ok := cur.(ListV); ok {
			fr.env[ins] = l
			return
		}
		tv = cur.(TV)
		if x.enc.Sort(tv.Ty) == "Bytes" {
			// slice of a local array: capacity = array length, backed by the cell
			n := app("blen", tv.T)
			if a, ok := tv.Ty.Underlying().(*types.Array); ok {
				n = intLit(a.Len())
			}
			tv = TV{T: tv.T, Ty: ins.Type(), M: &SliceMeta{Owner: "local", Cap: n, Cell: p.Cell}}
		} else {
			tv = TV{T: tv.T, Ty: ins.Type()}
		}
	default:
		tv = x.asTV(st, b)
	}
	if x.enc.Sort(tv.Ty) == "Bytes" || x.enc.Sort(ins.Type()) == "Bytes" {
		fr.env[ins] = x.byteSlice(st, tv, lo, hi, ins.Type())
		return
	}
	if lo == "" && hi == "" {
		fr.env[ins] = TV{T: tv.T, Ty: ins.Type()}
		return
	}
	if lo == "" || lo == "0" {
		// prefix: same array, shorter length
		x.boundsCheck(st, fr, hi, app("+", seqLen(tv.T), "1"), ins.Pos())
		fr.env[ins] = TV{T: app("mkseq", seqArr(tv.T), hi), Ty: ins.Type(), Shrunk: true}
		return
	}
	// s[lo:hi] of a non-byte slice read as a value: a sequence of hi-lo elements, element j being s[lo+j].
	// (Writes through the sub-slice into the shared backing array are not modelled: IndexAddr stores go through
	// SliceRef cells, which this value does not carry.)
	if st2, ok := ins.Type().Underlying().(*types.Slice); ok {
		if hi == "" {
			hi = seqLen(tv.T)
		}
		x.boundsCheck(st, fr, hi, app("+", seqLen(tv.T), "1"), ins.Pos())
		x.boundsCheck(st, fr, lo, app("+", hi, "1"), ins.Pos())
		es := x.enc.Sort(st2.Elem())
		sub := x.enc.FreshConst("subseq", fmt.Sprintf("(Array Int %s)", es))
		st.Assume(fmt.Sprintf("(forall ((j Int)) (! (= (select %s j) (select %s (+ j %s))) :pattern ((select %s j))))", sub, seqArr(tv.T), lo, sub))
		fr.env[ins] = TV{T: app("mkseq", sub, app("-", hi, lo)), Ty: ins.Type(), Shrunk: ins.High != nil}
		return
	}
	x.fail("general slicing of non-byte slices")
}

func (x *Exec) mapUpdate(st *State, m Value, k, v string) {
	switch mm := m.(type) {
	case MapRef:
		cur := st.cells[mm.Cell].(TV)
		st.cells[mm.Cell] = TV{T: app("store", cur.T, k, v), Ty: cur.Ty}
	case ObjV:
		name := gomapGhost(mm.Path)
		cur := x.ghostGet(st, 0, name, x.enc.Sort(mm.Ty), ghostInfo{Arr: true, Opt: true, ValTy: mm.Ty.Underlying().(*types.Map).Elem(), KeyTy: mm.Ty.Underlying().(*types.Map).Key()})
		x.ghostSet(st, 0, name, app("store", cur, k, v))
	default:
		x.fail("map update on %s", describe(m))
	}
}

func gomapGhost(path string) string {
	i := strings.LastIndex(path, ".")
	return path[i+1:]
}

func (x *Exec) lookup(st *State, fr *Frame, ins *ssa.Lookup) {
	m := x.val(fr, st, ins.X)
	k := term(x.asTV(st, x.val(fr, st, ins.Index)))
	var arr string
	var mt *types.Map
	switch mm := m.(type) {
	case MapRef:
		arr = st.cells[mm.Cell].(TV).T
		mt = mm.Ty.Underlying().(*types.Map)
	case ObjV:
		mt = mm.Ty.Underlying().(*types.Map)
		arr = x.ghostGet(st, 0, gomapGhost(mm.Path), x.enc.Sort(mm.Ty), ghostInfo{Arr: true, Opt: true, ValTy: mt.Elem(), KeyTy: mt.Key()})
	case TV:
		if mtt, ok := mm.Ty.Underlying().(*types.Map); ok {
			arr = mm.T
			mt = mtt
		} else if x.enc.Sort(mm.Ty) == "Bytes" {
			x.declBytesOps()
			fr.env[ins] = TV{T: app("bat", mm.T, k), Ty: ins.Type()}
			return
		}
	}
	if mt == nil {
		x.fail("lookup on %s", describe(m))
		return
	}
	sel := app("select", arr, k)
	present := isSomeT(sel, "(Opt "+x.enc.Sort(mt.Elem())+")")
	v := TV{T: ite(present, app("val", sel), x.enc.Zero(mt.Elem())), Ty: mt.Elem()}
	if ins.CommaOk {
		fr.env[ins] = TupV{v, TV{T: present, Ty: types.Typ[types.Bool]}}
	} else {
		fr.env[ins] = v
	}
}

// rangeWithin: [flo,fhi) is contained in [tlo,thi) (bounds are SMT integer literals).
func rangeWithin(flo, fhi, tlo, thi string) bool {
	p := func(s string) *big.Int {
		neg := false
		if strings.HasPrefix(s, "(- ") {
			neg = true
			s = s[3 : len(s)-1]
		}
		n, ok := new(big.Int).SetString(s, 10)
		if !ok {
			return nil
		}
		if neg {
			n.Neg(n)
		}
		return n
	}
	a, b, c, d := p(flo), p(fhi), p(tlo), p(thi)
	if a == nil || b == nil || c == nil || d == nil {
		return false
	}
	return a.Cmp(c) >= 0 && b.Cmp(d) <= 0
}
