package main

// Assumed contracts used by the L2 validator-set code: Any-wrapped public keys, consensus addresses,
// consensus params, and the cardinality of a stored map (linked to Map.Walk).

import (
	"fmt"
	"go/types"
)

func (x *Exec) pkUF(name, ret string) {
	x.enc.DeclFun(name, []string{"Iface"}, ret)
}

func init() {
	reg("(*github.com/cosmos/cosmos-sdk/codec/types.Any).GetCachedValue", "Any.GetCachedValue returns the cached unpacked value of the Any", func(c *CallCtx) []Outcome {
		a := c.args[0]
		if iv, ok := a.(IfaceV); ok {
			a = iv.V
		}
		v, ok := c.x.fieldByName(c.st, c.x.load(c.st, a, nil), "cachedValue")
		if !ok {
			c.x.fail("GetCachedValue on %s", describe(a))
			return nil
		}
		return c.ret(TV{T: term(v), Ty: types.NewInterfaceType(nil, nil)})
	})
	reg("github.com/cosmos/cosmos-sdk/codec/types.NewAnyWithValue", "NewAnyWithValue(v) fails or returns an Any whose cached value is v and whose type URL / bytes are functions of v", func(c *CallCtx) []Outcome {
		e := c.x.enc
		rt := c.resultType(0) // *Any
		anyT := deref(rt)
		v := c.x.asTV(c.st, c.args[0])
		e.DeclFun("anyOK", []string{"Iface"}, "Bool")
		e.DeclFun("anyTypeURL", []string{"Iface"}, "Bytes")
		e.DeclFun("anyBytes", []string{"Iface"}, "Bytes")
		st := structOfType(anyT)
		t := e.Zero(anyT)
		for i := 0; i < st.NumFields(); i++ {
			switch st.Field(i).Name() {
			case "cachedValue":
				t = e.Upd(anyT, i, t, v.T)
			case "TypeUrl":
				t = e.Upd(anyT, i, t, app("anyTypeURL", v.T))
			case "Value":
				t = e.Upd(anyT, i, t, app("anyBytes", v.T))
			}
		}
		ok := app("anyOK", v.T)
		errT := e.FreshConst("maybeerr", "Int")
		c.st.Assume(eq(eq(errT, "0"), ok))
		return c.ret(TV{T: ite(ok, app("Some", t), fmt.Sprintf("(as None %s)", e.Sort(rt))), Ty: rt}, TV{T: errT, Ty: tError})
	})
	reg("github.com/cosmos/cosmos-sdk/types.GetConsAddress", "GetConsAddress(pk) = pk.Address(): a pure function of the public key", func(c *CallCtx) []Outcome {
		c.x.pkUF("pkAddress", "Bytes")
		return c.ret(TV{T: app("pkAddress", c.x.asTV(c.st, c.args[0]).T), Ty: c.resultType(0)})
	})
	addr := func(c *CallCtx) []Outcome {
		c.x.pkUF("pkAddress", "Bytes")
		return c.ret(TV{T: app("pkAddress", c.x.asTV(c.st, c.args[0]).T), Ty: c.cc.Signature().Results().At(0).Type()})
	}
	reg("github.com/cosmos/cosmos-sdk/crypto/types.PubKey.Address", "PubKey.Address is a pure function of the key", addr)
	reg("github.com/cometbft/cometbft/crypto.PubKey.Address", "PubKey.Address is a pure function of the key", addr)
	reg("github.com/cosmos/cosmos-sdk/crypto/types.PubKey.Type", "PubKey.Type is a pure function of the key", func(c *CallCtx) []Outcome {
		c.x.pkUF("pkType", "Bytes")
		return c.ret(TV{T: app("pkType", c.x.asTV(c.st, c.args[0]).T), Ty: tString})
	})
	reg("github.com/cosmos/cosmos-sdk/crypto/types.PubKey.Bytes", "PubKey.Bytes is a pure function of the key", func(c *CallCtx) []Outcome {
		c.x.pkUF("pkBytes", "Bytes")
		return c.ret(TV{T: app("pkBytes", c.x.asTV(c.st, c.args[0]).T), Ty: tBytes})
	})
	reg("github.com/cosmos/cosmos-sdk/crypto/codec.ToCmtProtoPublicKey", "ToCmtProtoPublicKey is a pure partial function of the key", func(c *CallCtx) []Outcome {
		e := c.x.enc
		rt := c.resultType(0)
		e.DeclFun("cmtPubKey", []string{"Iface"}, e.Sort(rt))
		e.DeclFun("cmtPubKeyOK", []string{"Iface"}, "Bool")
		v := c.x.asTV(c.st, c.args[0])
		errT := e.FreshConst("maybeerr", "Int")
		c.st.Assume(eq(eq(errT, "0"), app("cmtPubKeyOK", v.T)))
		return c.ret(TV{T: app("cmtPubKey", v.T), Ty: rt}, TV{T: errT, Ty: tError})
	})
	reg("(github.com/cosmos/cosmos-sdk/types.Context).ConsensusParams", "Context.ConsensusParams is a fixed value of the context", func(c *CallCtx) []Outcome {
		rt := c.resultType(0)
		n := c.x.enc.DeclConst("ctx.consParams", c.x.enc.Sort(rt))
		return c.ret(TV{T: n, Ty: rt})
	})
	reg("github.com/cosmos/cosmos-sdk/codec.Codec.UnmarshalInterfaceJSON", "Codec.UnmarshalInterfaceJSON decodes the bytes into the pointed-to interface: a pure partial function of the bytes (A-CODEC)", func(c *CallCtx) []Outcome {
		e := c.x.enc
		e.DeclFun("jsonIface", []string{"Bytes"}, "Iface")
		e.DeclFun("jsonIfaceOK", []string{"Bytes"}, "Bool")
		bz := c.x.bytesTV(c.st, c.args[1])
		p := c.args[2]
		if iv, ok := p.(IfaceV); ok {
			p = iv.V
		}
		ok := app("jsonIfaceOK", bz.T)
		errT := e.FreshConst("maybeerr", "Int")
		c.st.Assume(eq(eq(errT, "0"), ok))
		c.x.storeTo(c.st, p, TV{T: ite(ok, app("jsonIface", bz.T), "iface_nil"), Ty: types.NewInterfaceType(nil, nil)})
		return c.ret(TV{T: errT, Ty: tError})
	})
}

func init() {
	reg("github.com/cosmos/cosmos-sdk/x/staking/types.NewHistoricalInfo", "NewHistoricalInfo(header, valset, _) records the header and a permutation of the validator list (sorted the CometBFT way) (A-SORT)", func(c *CallCtx) []Outcome {
		x := c.x
		e := x.enc
		rt := c.resultType(0)
		st := structOfType(rt)
		vs := x.asTV(c.st, c.args[1]) // staking Validators{Validators []Validator, ValidatorCodec}
		vst := structOfType(vs.Ty)
		if st == nil || vst == nil {
			x.fail("NewHistoricalInfo: unexpected types")
			return nil
		}
		var in TV
		for i := 0; i < vst.NumFields(); i++ {
			if vst.Field(i).Name() == "Validators" {
				in = TV{T: e.Sel(vs.Ty, i, vs.T), Ty: vst.Field(i).Type()}
			}
		}
		hdr := x.asTV(c.st, c.args[0])
		n := app("gseq.len", in.T)
		nw := x.freshTV("histvals", in.Ty, c.st)
		c.st.Assume(eq(app("gseq.len", nw.T), n))
		id := e.Fresh("hperm")
		perm := e.DeclFun("perm."+id, []string{"Int"}, "Int")
		pinv := e.DeclFun("pinv."+id, []string{"Int"}, "Int")
		oa, na := app("gseq.arr", in.T), app("gseq.arr", nw.T)
		c.st.Assume(fmt.Sprintf("(forall ((j Int)) (! (=> (and (<= 0 j) (< j %s)) (and (<= 0 (%s j)) (< (%s j) %s) (= (select %s j) (select %s (%s j))))) :pattern ((select %s j))))", n, perm, perm, n, na, oa, perm, na))
		c.st.Assume(fmt.Sprintf("(forall ((j Int)) (! (=> (and (<= 0 j) (< j %s)) (and (<= 0 (%s j)) (< (%s j) %s) (= (select %s (%s j)) (select %s j)))) :pattern ((select %s j))))", n, pinv, pinv, n, na, pinv, oa, oa))
		r := e.Zero(rt)
		for i := 0; i < st.NumFields(); i++ {
			switch st.Field(i).Name() {
			case "Header":
				r = e.Upd(rt, i, r, hdr.T)
			case "Valset":
				r = e.Upd(rt, i, r, nw.T)
			}
		}
		return c.ret(TV{T: r, Ty: rt})
	})
	reg("sort.SliceStable", "sort.SliceStable rearranges the slice in place into a permutation of its elements ordered by less (A-SORT)", func(c *CallCtx) []Outcome {
		x := c.x
		e := x.enc
		sv := c.args[0]
		if iv, ok := sv.(IfaceV); ok {
			sv = iv.V
		}
		ref, ok := sv.(SliceRef)
		if !ok {
			x.fail("sort.SliceStable on %s", describe(sv))
			return nil
		}
		old := c.st.cells[ref.Cell].(TV)
		n := seqLen(old.T)
		nw := x.freshTV("sorted", old.Ty, c.st)
		c.st.Assume(eq(app("gseq.len", nw.T), n))
		id := e.Fresh("perm")
		perm := e.DeclFun("perm."+id, []string{"Int"}, "Int")
		pinv := e.DeclFun("pinv."+id, []string{"Int"}, "Int")
		oa, na := seqArr(old.T), app("gseq.arr", nw.T)
		c.st.Assume(fmt.Sprintf("(forall ((j Int)) (! (=> (and (<= 0 j) (< j %s)) (and (<= 0 (%s j)) (< (%s j) %s) (= (select %s j) (select %s (%s j))))) :pattern ((select %s j))))", n, perm, perm, n, na, oa, perm, na))
		c.st.Assume(fmt.Sprintf("(forall ((j Int)) (! (=> (and (<= 0 j) (< j %s)) (and (<= 0 (%s j)) (< (%s j) %s) (= (select %s (%s j)) (select %s j)))) :pattern ((select %s j))))", n, pinv, pinv, n, na, pinv, oa, oa))
		c.st.cells[ref.Cell] = nw
		// ordered by less: evaluate the comparison closure on two symbolic positions
		if clo, ok := c.args[1].(CloV); ok {
			si := e.DeclConst("sortpos.i."+id, "Int")
			sj := e.DeclConst("sortpos.j."+id, "Int")
			tmp := c.st.Clone()
			tmp.Assume(and(app("<=", "0", si), app("<", si, sj), app("<", sj, n)))
			outs := x.execFunc(tmp, clo.Fn, []Value{TV{T: sj, Ty: tInt}, TV{T: si, Ty: tInt}}, clo.Free, c.fr.depth+1, false, c.fr)
			if len(outs) == 1 && !outs[0].panic {
				less := term(outs[0].vals[0])
				c.st.Assume(fmt.Sprintf("(forall ((%s Int) (%s Int)) (=> (and (<= 0 %s) (< %s %s) (< %s %s)) (not %s)))", si, sj, si, si, sj, sj, n, less))
			} else {
				x.warn("sort comparison closure not summarised: ordering fact omitted")
			}
		}
		return c.ret()
	})
}
