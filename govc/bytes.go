package main

// Byte strings: value terms with a structural "rope" reading, mutable local buffers (cells + views),
// capacity/ownership facts for frame obligations, and the hash abstraction sha3.<signature>(atoms...).

import (
	"fmt"
	"go/types"
	"strconv"
	"strings"

	"golang.org/x/tools/go/ssa"
)

// ByteView is a slice view into a local byte buffer cell.
type ByteView struct {
	Cell int
	Off  int64
	Len  string // term (numeral when known)
	Cap  string
	Ty   types.Type
}

type seg struct {
	kind string // u64be, u64le, u32be, byte, zeros, raw
	t    string // value term (Int for ints/byte, Bytes for raw)
	n    int64  // length if known (-1 unknown)
}

func (x *Exec) declRopeOps() {
	e := x.enc
	e.DeclFun("be64", []string{"Int"}, "Bytes")
	e.DeclFun("le64", []string{"Int"}, "Bytes")
	e.DeclFun("be32", []string{"Int"}, "Bytes")
	e.DeclFun("b1", []string{"Int"}, "Bytes")
	e.DeclFun("bslice", []string{"Bytes", "Int", "Int"}, "Bytes")
}

// rope parses the structure of a Bytes term.
func (x *Exec) rope(st *State, t string) []seg {
	switch {
	case t == "bempty":
		return nil
	case strings.HasPrefix(t, "bzeros"):
		n, err := strconv.ParseInt(t[6:], 10, 64)
		if err == nil {
			if n == 0 {
				return nil
			}
			return []seg{{kind: "zeros", n: n}}
		}
	case strings.HasPrefix(t, "(bcat "):
		p := splitTop(t[1 : len(t)-1])
		if len(p) == 3 {
			return append(x.rope(st, p[1]), x.rope(st, p[2])...)
		}
	case strings.HasPrefix(t, "(be64 "):
		return []seg{{kind: "u64be", t: t[6 : len(t)-1], n: 8}}
	case strings.HasPrefix(t, "(le64 "):
		return []seg{{kind: "u64le", t: t[6 : len(t)-1], n: 8}}
	case strings.HasPrefix(t, "(be32 "):
		return []seg{{kind: "u32be", t: t[6 : len(t)-1], n: 4}}
	case strings.HasPrefix(t, "(b1 "):
		return []seg{{kind: "byte", t: t[4 : len(t)-1], n: 1}}
	}
	n, ok := x.constLen(st, t)
	if !ok {
		n = -1
	}
	return []seg{{kind: "raw", t: t, n: n}}
}

func (x *Exec) segTerm(s seg) string {
	x.declRopeOps()
	switch s.kind {
	case "u64be":
		return app("be64", s.t)
	case "u64le":
		return app("le64", s.t)
	case "u32be":
		return app("be32", s.t)
	case "byte":
		return app("b1", s.t)
	case "zeros":
		return x.enc.ZeroBytes(s.n)
	}
	return s.t
}

func (x *Exec) ropeTerm(r []seg) string {
	if len(r) == 0 {
		return "bempty"
	}
	t := x.segTerm(r[0])
	for _, s := range r[1:] {
		t = app("bcat", t, x.segTerm(s))
	}
	x.enc.GroundBytes(t)
	return t
}

// constLen returns the statically known length of a Bytes term.
func (x *Exec) constLen(st *State, t string) (int64, bool) {
	switch {
	case t == "bempty":
		return 0, true
	case strings.HasPrefix(t, "bzeros"):
		n, err := strconv.ParseInt(t[6:], 10, 64)
		return n, err == nil
	case strings.HasPrefix(t, "(be64 "), strings.HasPrefix(t, "(le64 "):
		return 8, true
	case strings.HasPrefix(t, "(be32 "):
		return 4, true
	case strings.HasPrefix(t, "(b1 "):
		return 1, true
	case strings.HasPrefix(t, "(bslice "):
		p := splitTop(t[1 : len(t)-1])
		if len(p) == 4 && isNumeral(p[2]) && isNumeral(p[3]) {
			lo, _ := strconv.ParseInt(p[2], 10, 64)
			hi, _ := strconv.ParseInt(p[3], 10, 64)
			return hi - lo, true
		}
	case strings.HasPrefix(t, "(bcat "):
		p := splitTop(t[1 : len(t)-1])
		if len(p) == 3 {
			a, ok1 := x.constLen(st, p[1])
			b, ok2 := x.constLen(st, p[2])
			return a + b, ok1 && ok2
		}
	case strings.HasPrefix(t, "(sha3."):
		return 32, true
	}
	if n, ok := x.lenHint[t]; ok {
		return n, true
	}
	if st != nil {
		pre := "(= (blen " + t + ") "
		var scan func(f string) (int64, bool)
		scan = func(f string) (int64, bool) {
			if strings.HasPrefix(f, pre) && strings.HasSuffix(f, ")") && isNumeral(f[len(pre):len(f)-1]) {
				n, _ := strconv.ParseInt(f[len(pre):len(f)-1], 10, 64)
				return n, true
			}
			if strings.HasPrefix(f, "(and ") {
				for _, c := range splitTop(f[5 : len(f)-1]) {
					if n, ok := scan(c); ok {
						return n, true
					}
				}
			}
			return 0, false
		}
		for _, f := range st.pc {
			if n, ok := scan(f); ok {
				return n, true
			}
		}
	}
	return 0, false
}

// ropeSlice extracts [lo,hi) from a rope with constant offsets.
func (x *Exec) ropeSlice(st *State, r []seg, lo, hi int64) ([]seg, bool) {
	x.declRopeOps()
	var out []seg
	pos := int64(0)
	for _, s := range r {
		if pos >= hi {
			break
		}
		if s.n < 0 {
			// unknown-length segment: only sliceable from its start when it is the last relevant piece
			if pos >= lo {
				out = append(out, seg{kind: "raw", t: app("bslice", x.segTerm(s), "0", fmt.Sprint(hi-pos)), n: hi - pos})
				return out, true
			}
			if pos < lo {
				out = append(out, seg{kind: "raw", t: app("bslice", x.segTerm(s), fmt.Sprint(lo-pos), fmt.Sprint(hi-pos)), n: hi - lo})
				return out, true
			}
			return nil, false
		}
		end := pos + s.n
		if end <= lo {
			pos = end
			continue
		}
		a, b := max64(lo, pos)-pos, min64(hi, end)-pos
		if a == 0 && b == s.n {
			out = append(out, s)
		} else {
			switch s.kind {
			case "zeros":
				out = append(out, seg{kind: "zeros", n: b - a})
			default:
				out = append(out, seg{kind: "raw", t: app("bslice", x.segTerm(s), fmt.Sprint(a), fmt.Sprint(b)), n: b - a})
			}
		}
		pos = end
	}
	return out, true
}

func max64(a, b int64) int64 {
	if a > b {
		return a
	}
	return b
}
func min64(a, b int64) int64 {
	if a < b {
		return a
	}
	return b
}

func (x *Exec) ropeLen(r []seg) (int64, bool) {
	n := int64(0)
	for _, s := range r {
		if s.n < 0 {
			return 0, false
		}
		n += s.n
	}
	return n, true
}

// ropeReplace overwrites [off, off+len(src)) of the rope with src.
func (x *Exec) ropeReplace(st *State, r []seg, off int64, src []seg) ([]seg, bool) {
	n, ok := x.ropeLen(src)
	if !ok {
		return nil, false
	}
	total, ok := x.ropeLen(r)
	if !ok || off+n > total {
		return nil, false
	}
	before, ok1 := x.ropeSlice(st, r, 0, off)
	after, ok2 := x.ropeSlice(st, r, off+n, total)
	if !ok1 || !ok2 {
		return nil, false
	}
	out := append(append(append([]seg(nil), before...), src...), after...)
	return mergeZeros(out), true
}

func mergeZeros(r []seg) []seg {
	var out []seg
	for _, s := range r {
		if s.n == 0 {
			continue
		}
		if s.kind == "zeros" && len(out) > 0 && out[len(out)-1].kind == "zeros" {
			out[len(out)-1].n += s.n
			continue
		}
		out = append(out, s)
	}
	return out
}

// viewTerm is the current value of a byte view.
func (x *Exec) viewTerm(st *State, v ByteView) TV {
	cur := st.cells[v.Cell].(TV)
	r := x.rope(st, cur.T)
	total, ok := x.ropeLen(r)
	if isNumeral(v.Len) {
		n, _ := strconv.ParseInt(v.Len, 10, 64)
		if ok && v.Off == 0 && n == total {
			return TV{T: cur.T, Ty: v.Ty, M: &SliceMeta{Owner: "local", Cap: v.Cap, Cell: v.Cell, SubOff: fmt.Sprint(v.Off)}}
		}
		if s, ok := x.ropeSlice(st, r, v.Off, v.Off+n); ok {
			return TV{T: x.ropeTerm(s), Ty: v.Ty, M: &SliceMeta{Owner: "local", Cap: v.Cap, Cell: v.Cell, SubOff: fmt.Sprint(v.Off)}}
		}
	}
	if v.Off == 0 {
		return TV{T: cur.T, Ty: v.Ty, M: &SliceMeta{Owner: "local", Cap: v.Cap, Cell: v.Cell, SubOff: fmt.Sprint(v.Off)}}
	}
	x.fail("byte view with symbolic bounds")
	return TV{T: cur.T, Ty: v.Ty}
}

func (x *Exec) writeView(st *State, v ByteView, at int64, src []seg) {
	cur := st.cells[v.Cell].(TV)
	r, ok := x.ropeReplace(st, x.rope(st, cur.T), v.Off+at, src)
	if !ok {
		x.fail("write into byte buffer with non-constant layout")
		return
	}
	st.cells[v.Cell] = TV{T: x.ropeTerm(r), Ty: cur.Ty}
}

// byteSlice implements s[lo:hi] for byte strings.
func (x *Exec) byteSlice(st *State, tv TV, lo, hi string, rty types.Type) Value {
	x.declRopeOps()
	if lo == "" {
		lo = "0"
	}
	// local array / buffer cell: produce a view
	if tv.M != nil && tv.M.Owner == "local" && tv.M.Cell >= 0 && isNumeral(lo) && (hi == "" || isNumeral(hi)) {
		l, _ := strconv.ParseInt(lo, 10, 64)
		base := int64(0)
		if tv.M.SubOff != "" {
			base, _ = strconv.ParseInt(tv.M.SubOff, 10, 64)
		}
		ln := hi
		if hi == "" {
			if n, ok := x.constLen(st, tv.T); ok {
				ln = fmt.Sprint(n - l)
			} else {
				ln = app("-", app("blen", tv.T), lo)
			}
		} else {
			h, _ := strconv.ParseInt(hi, 10, 64)
			ln = fmt.Sprint(h - l)
		}
		capT := tv.M.Cap
		if isNumeral(capT) {
			c, _ := strconv.ParseInt(capT, 10, 64)
			capT = fmt.Sprint(c - l)
		}
		return ByteView{Cell: tv.M.Cell, Off: base + l, Len: ln, Cap: capT, Ty: rty}
	}
	n, known := x.constLen(st, tv.T)
	if hi == "" {
		if known {
			hi = fmt.Sprint(n)
		} else {
			hi = app("blen", tv.T)
		}
	}
	if lo == "0" && ((known && hi == fmt.Sprint(n)) || hi == app("blen", tv.T)) {
		return TV{T: tv.T, Ty: rty, M: tv.M}
	}
	// bounds: slicing beyond cap panics; within cap but beyond len exposes hidden bytes (not modelled: assume within len)
	st.Assume(and(app("<=", "0", lo), app("<=", lo, hi), app("<=", hi, app("blen", tv.T))))
	var t string
	if isNumeral(lo) && isNumeral(hi) {
		l, _ := strconv.ParseInt(lo, 10, 64)
		h, _ := strconv.ParseInt(hi, 10, 64)
		if s, ok := x.ropeSlice(st, x.rope(st, tv.T), l, h); ok {
			t = x.ropeTerm(s)
		}
	}
	if t == "" {
		t = app("bslice", tv.T, lo, hi)
	}
	x.enc.GroundBytes(t)
	var m *SliceMeta
	if tv.M != nil {
		mm := *tv.M
		mm.Cap = ""
		m = &mm
	}
	return TV{T: t, Ty: rty, M: m}
}

// byteAppend implements append(a, b...) on byte strings, with the in-place write check.
func (x *Exec) byteAppend(st *State, fr *Frame, a, b TV, rty types.Type, instr ssa.Instruction) Value {
	x.declRopeOps()
	res := app("bcat", a.T, b.T)
	if a.T == "bempty" || isNilConst(a) {
		res = b.T
	}
	if b.T == "bempty" {
		res = a.T
	}
	x.enc.GroundBytes(res)
	if a.M != nil && a.M.Owner == "caller" {
		// appending to caller memory: in place iff len(a)+len(b) <= cap(a). A write beyond len(a) into the
		// caller's backing array is observable by the caller (e.g. a sibling sub-slice).
		capT := a.M.Cap
		if capT == "" {
			capT = x.enc.FreshConst("cap", "Int")
			st.Assume(app(">=", capT, app("blen", a.T)))
		}
		need := app("+", app("blen", a.T), app("blen", b.T))
		noWrite := or(eq(app("blen", b.T), "0"), app(">", need, capT))
		x.frameWrite(st, fr, a.M.Root, noWrite, instr)
		return TV{T: res, Ty: rty, M: &SliceMeta{Owner: "mixed", Cell: -1}}
	}
	if a.M != nil && a.M.Owner == "local" && a.M.Cell >= 0 && isNumeral(a.M.Cap) {
		// local buffer: reallocation or in-place; when it fits the backing cell is updated too
		la, ok1 := x.constLen(st, a.T)
		lb, ok2 := x.constLen(st, b.T)
		c, _ := strconv.ParseInt(a.M.Cap, 10, 64)
		if ok1 && ok2 && la+lb <= c && lb > 0 {
			off := int64(0)
			if a.M.SubOff != "" {
				off, _ = strconv.ParseInt(a.M.SubOff, 10, 64)
			}
			v := ByteView{Cell: a.M.Cell, Off: off, Len: fmt.Sprint(la + lb), Cap: a.M.Cap, Ty: rty}
			x.writeView(st, ByteView{Cell: a.M.Cell, Off: off, Len: fmt.Sprint(c), Cap: a.M.Cap}, la, x.rope(st, b.T))
			return v
		}
	}
	return TV{T: res, Ty: rty, M: &SliceMeta{Owner: "local", Cell: -1}}
}

// frameWrite records an obligation that no caller-visible memory is written.
func (x *Exec) frameWrite(st *State, fr *Frame, root string, noWrite string, instr ssa.Instruction) {
	if x.allowsWrite(root) {
		return
	}
	x.addObl("frame", "caller_bytes_unmodified", fmt.Sprintf("assigns \\nothing: no in-place write into the caller's byte slice %s (%s)", root, x.pos(instr.Pos())), st, noWrite, []string{"C17"})
	// continue under both possibilities; the value result is the same
}

func (x *Exec) frameWriteAt(st *State, root string) {
	if x.allowsWrite(root) {
		return
	}
	x.addObl("frame", "caller_bytes_unmodified", "assigns \\nothing: no write into the caller's byte slice "+root, st, "false", []string{"C17"})
}

func (x *Exec) allowsWrite(root string) bool {
	if x.topC == nil {
		return false
	}
	for _, cl := range x.topC.Of("assigns") {
		for _, n := range cl.nodes {
			if n.Kind == "unary" || dottedName(n) == "*"+root {
				return true
			}
		}
		if strings.Contains(cl.Text, "*"+root) {
			return true
		}
	}
	return false
}

func (x *Exec) copyOp(st *State, fr *Frame, cc *ssa.CallCommon, args []Value, instr ssa.Instruction) []Outcome {
	dst := args[0]
	src := x.bytesTV(st, args[1])
	sr := x.rope(st, src.T)
	sn, ok := x.ropeLen(sr)
	switch d := dst.(type) {
	case ByteView:
		if !ok && isNumeral(d.Len) && d.Off == 0 {
			// source of unknown length copied over a whole fixed-size buffer: exact when the lengths agree,
			// otherwise an uninterpreted function of the source (prefix / zero padded)
			cur := st.cells[d.Cell].(TV)
			if total, okc := x.constLen(st, cur.T); okc && fmt.Sprint(total) == d.Len {
				f := x.enc.DeclFun("bcopyInto"+d.Len, []string{"Bytes"}, "Bytes")
				nv := ite(eq(app("blen", src.T), d.Len), src.T, app(f, src.T))
				x.lenHint[nv] = total
				st.Assume(eq(app("blen", nv), d.Len))
				st.cells[d.Cell] = TV{T: nv, Ty: cur.Ty}
				n := ite(app("<", app("blen", src.T), d.Len), app("blen", src.T), d.Len)
				return []Outcome{{st: st, vals: []Value{TV{T: n, Ty: tInt}}}}
			}
		}
		if !ok || !isNumeral(d.Len) {
			// source or window of unknown length: the buffer holds some bytes of the same total length afterwards
			// (over-approximation: nothing is known about them), the count is min(len(dst), len(src))
			cur, isTV := st.cells[d.Cell].(TV)
			if !isTV {
				x.fail("copy with non-constant lengths")
				return nil
			}
			x.warn("copy of a byte string of unknown length into a buffer: buffer content havocked (imprecise)")
			nv := x.freshTV("copied_buf", cur.Ty, st)
			if total, okc := x.constLen(st, cur.T); okc {
				x.lenHint[nv.T] = total
				st.Assume(eq(app("blen", nv.T), fmt.Sprint(total)))
			} else {
				st.Assume(eq(app("blen", nv.T), app("blen", cur.T)))
			}
			st.cells[d.Cell] = nv
			sl := app("blen", src.T)
			n := ite(app("<", sl, d.Len), sl, d.Len)
			return []Outcome{{st: st, vals: []Value{TV{T: n, Ty: tInt}}}}
		}
		dn, _ := strconv.ParseInt(d.Len, 10, 64)
		n := min64(dn, sn)
		part, _ := x.ropeSlice(st, sr, 0, n)
		x.writeView(st, d, 0, part)
		return []Outcome{{st: st, vals: []Value{TV{T: fmt.Sprint(n), Ty: tInt}}}}
	case TV:
		if d.M != nil && d.M.Owner == "caller" {
			x.frameWrite(st, fr, d.M.Root, or(eq(app("blen", d.T), "0"), eq(app("blen", src.T), "0")), instr)
			return []Outcome{{st: st, vals: []Value{x.freshTV("copied", tInt, st)}}}
		}
	case PtrV:
		// copy into a whole local array (e.g. copy(arr[:], x)) arrives as view normally
	}
	x.fail("copy into %s", describe(dst))
	return nil
}

func (x *Exec) bytesTV(st *State, v Value) TV {
	switch b := v.(type) {
	case ByteView:
		return x.viewTerm(st, b)
	}
	return x.asTV(st, v)
}

// sha3Call abstracts a hash call as sha3.<sig>(atoms...).
func (x *Exec) sha3Call(st *State, data TV) TV {
	r := x.rope(st, data.T)
	// merge adjacent raw pieces is not needed; classify
	var sig []string
	var sorts []string
	var args []string
	for _, s := range r {
		switch s.kind {
		case "u64be":
			sig = append(sig, "u64")
			sorts = append(sorts, "Int")
			args = append(args, s.t)
		case "u64le":
			sig = append(sig, "u64le")
			sorts = append(sorts, "Int")
			args = append(args, s.t)
		case "u32be":
			sig = append(sig, "u32")
			sorts = append(sorts, "Int")
			args = append(args, s.t)
		case "byte":
			sig = append(sig, "byte")
			sorts = append(sorts, "Int")
			args = append(args, s.t)
		case "zeros":
			sig = append(sig, fmt.Sprintf("z%d", s.n))
		case "raw":
			if s.n >= 0 {
				sig = append(sig, fmt.Sprintf("b%d", s.n))
			} else {
				sig = append(sig, "var")
			}
			sorts = append(sorts, "Bytes")
			args = append(args, s.t)
		}
	}
	if len(sig) == 0 {
		sig = []string{"empty"}
	}
	name := "sha3." + strings.Join(sig, ".")
	x.enc.DeclFun(name, sorts, "Bytes")
	t := app(name, args...)
	x.lenHint[t] = 32
	st.Assume(eq(app("blen", t), "32"))
	return TV{T: t, Ty: types.NewArray(types.Typ[types.Uint8], 32)}
}

func init() {
	reg("golang.org/x/crypto/sha3.Sum256", "sha3.Sum256 is a function of the byte values only: the call is abstracted as sha3.<layout>(fields...) where <layout> records the order, width and endianness of the concatenated fields (A-HASH); no collision resistance is assumed in code obligations", func(c *CallCtx) []Outcome {
		return c.ret(c.x.sha3Call(c.st, c.x.bytesTV(c.st, c.args[0])))
	})
	reg("(encoding/binary.bigEndian).AppendUint64", "binary.BigEndian.AppendUint64(b,v) = append(b, 8 big-endian bytes of v)", func(c *CallCtx) []Outcome {
		c.x.declRopeOps()
		a := c.x.bytesTV(c.st, c.args[1])
		b := TV{T: app("be64", c.t(2)), Ty: tBytes}
		return c.ret(c.x.byteAppend(c.st, c.fr, a, b, tBytes, c.instr))
	})
	reg("(encoding/binary.littleEndian).AppendUint64", "binary.LittleEndian.AppendUint64(b,v) = append(b, 8 little-endian bytes of v)", func(c *CallCtx) []Outcome {
		c.x.declRopeOps()
		a := c.x.bytesTV(c.st, c.args[1])
		b := TV{T: app("le64", c.t(2)), Ty: tBytes}
		return c.ret(c.x.byteAppend(c.st, c.fr, a, b, tBytes, c.instr))
	})
	reg("(encoding/binary.bigEndian).AppendUint32", "binary.BigEndian.AppendUint32(b,v) = append(b, 4 big-endian bytes of v)", func(c *CallCtx) []Outcome {
		c.x.declRopeOps()
		a := c.x.bytesTV(c.st, c.args[1])
		b := TV{T: app("be32", c.t(2)), Ty: tBytes}
		return c.ret(c.x.byteAppend(c.st, c.fr, a, b, tBytes, c.instr))
	})
	reg("(encoding/binary.bigEndian).PutUint64", "binary.BigEndian.PutUint64(b,v) writes 8 big-endian bytes of v at b[0:8]; panics if len(b) < 8", func(c *CallCtx) []Outcome {
		c.x.declRopeOps()
		switch d := c.args[1].(type) {
		case ByteView:
			c.x.writeView(c.st, d, 0, []seg{{kind: "u64be", t: c.t(2), n: 8}})
			return c.ret()
		case TV:
			if d.M != nil && d.M.Owner == "caller" {
				c.x.frameWrite(c.st, c.fr, d.M.Root, "false", c.instr)
				return c.ret()
			}
		}
		c.x.fail("PutUint64 into %s", describe(c.args[1]))
		return nil
	})
	reg("(encoding/binary.littleEndian).PutUint64", "binary.LittleEndian.PutUint64(b,v) writes 8 little-endian bytes of v at b[0:8]", func(c *CallCtx) []Outcome {
		c.x.declRopeOps()
		if d, ok := c.args[1].(ByteView); ok {
			c.x.writeView(c.st, d, 0, []seg{{kind: "u64le", t: c.t(2), n: 8}})
			return c.ret()
		}
		c.x.fail("PutUint64 into %s", describe(c.args[1]))
		return nil
	})
}
