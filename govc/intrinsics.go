package main

// Assumed contracts of dependencies, implemented as symbolic transformers.
// Every entry carries a textual statement of the assumption; the evidence lists the ones used.

import (
	"fmt"
	"go/types"
	"strings"
)

var intrinsics = map[string]Intrinsic{}
var intrinsicDoc = map[string]string{}

func reg(name, doc string, h Intrinsic) {
	intrinsics[name] = h
	intrinsicDoc[name] = doc
}

var (
	tBool   = types.Typ[types.Bool]
	tInt    = types.Typ[types.Int]
	tInt64  = types.Typ[types.Int64]
	tUint64 = types.Typ[types.Uint64]
	tString = types.Typ[types.String]
	tError  = types.Universe.Lookup("error").Type()
	tBytes  = types.NewSlice(types.Typ[types.Uint8])
)

// RangeV is a collections ranger.
type RangeV struct {
	Prefix string // first pair component equals Prefix ("" = no prefix)
	Until  string // first pair component is at most Until (NewPrefixUntilPairRange)
	Lo, Hi string // bounds on the second component (pair range with a prefix) or on the key (plain range); "" = open
	KeyBounds bool // Range[Pair[..]]: Lo / Hi are whole pair keys (lexicographic bounds)
	LoIncl bool
	HiIncl bool
	Desc   bool
}

func (r RangeV) whole() bool { return r.Prefix == "" && r.Until == "" && r.Lo == "" && r.Hi == "" }

// ListV is a Go-side list of heterogeneous values (varargs of interface{}, events, attributes).
type ListV struct{ Elems []Value }

// AttrV is an sdk.Attribute.
type AttrV struct{ K, V string }

// AccV is an account object under construction.
type AccV struct{ Addr string }

func (c *CallCtx) uf(name string, ret string, args ...TV) string {
	var ss, ts []string
	for _, a := range args {
		ss = append(ss, c.x.enc.Sort(a.Ty))
		ts = append(ts, a.T)
	}
	c.x.enc.DeclFun(name, ss, ret)
	return app(name, ts...)
}

func (c *CallCtx) freshErr() TV {
	e := c.x.enc.FreshConst("err", "Int")
	c.st.Assume(not(eq(e, "0")))
	return TV{T: e, Ty: tError}
}

func nilErr() TV { return TV{T: "0", Ty: tError} }

// forkErr returns two outcomes: failure (state as given by failSt) and success.
func (c *CallCtx) forkFail(onOK func(st *State) []Value, failVals func(st *State, err TV) []Value) []Outcome {
	fail := c.st.Clone()
	ok := c.st
	ev := c.x.enc.FreshConst("err", "Int")
	fail.Assume(not(eq(ev, "0")))
	var outs []Outcome
	outs = append(outs, Outcome{st: fail, vals: failVals(fail, TV{T: ev, Ty: tError})})
	outs = append(outs, Outcome{st: ok, vals: onOK(ok)})
	return outs
}

func init() {
	// ----- collections -------------------------------------------------------------------
	reg("(cosmossdk.io/collections.Map[K, V]).Get", "Map.Get returns (v,nil) if the key is present, else (zero, ErrNotFound); no other failure (A-STORE)", func(c *CallCtx) []Outcome {
		d, ok := c.x.coll(c.args[0])
		if !ok {
			c.x.fail("Map.Get on %s", describe(c.args[0]))
			return nil
		}
		h := handleOf(c.args[1])
		arr := c.x.ghostGet(c.st, h, d.name, d.sort, d.gi)
		sel := app("select", arr, c.t(2))
		some := isSomeT(sel, "(Opt "+c.x.enc.Sort(d.valTy)+")")
		v := TV{T: ite(some, app("val", sel), c.x.enc.Zero(d.valTy)), Ty: d.valTy}
		if some == sel { // never
		}
		for _, f := range c.x.enc.TypeFacts(app("val", sel), d.valTy, 0) {
			c.st.Assume(implies(some, f))
		}
		return c.ret(v, TV{T: ite(some, "0", c.x.errNotFound()), Ty: tError})
	})
	reg("(cosmossdk.io/collections.Map[K, V]).Has", "Map.Has returns (present,nil) (A-STORE)", func(c *CallCtx) []Outcome {
		d, _ := c.x.coll(c.args[0])
		arr := c.x.ghostGet(c.st, handleOf(c.args[1]), d.name, d.sort, d.gi)
		return c.ret(TV{T: isSomeT(app("select", arr, c.t(2)), "(Opt "+c.x.enc.Sort(d.valTy)+")"), Ty: tBool}, nilErr())
	})
	reg("(cosmossdk.io/collections.Map[K, V]).Set", "Map.Set stores Some(v) at key and returns nil (A-STORE)", func(c *CallCtx) []Outcome {
		d, ok := c.x.coll(c.args[0])
		if !ok {
			c.x.fail("Map.Set on %s", describe(c.args[0]))
			return nil
		}
		h := handleOf(c.args[1])
		arr := c.x.ghostGet(c.st, h, d.name, d.sort, d.gi)
		c.x.ghostSet(c.st, h, d.name, app("store", arr, c.t(2), app("Some", c.t(3))))
		return c.ret(nilErr())
	})
	reg("(cosmossdk.io/collections.Map[K, V]).Remove", "Map.Remove deletes the key (no error if absent) and returns nil (A-STORE)", func(c *CallCtx) []Outcome {
		d, _ := c.x.coll(c.args[0])
		h := handleOf(c.args[1])
		arr := c.x.ghostGet(c.st, h, d.name, d.sort, d.gi)
		c.x.ghostSet(c.st, h, d.name, app("store", arr, c.t(2), fmt.Sprintf("(as None (Opt %s))", c.x.enc.Sort(d.valTy))))
		return c.ret(nilErr())
	})
	reg("(cosmossdk.io/collections.Map[K, V]).Clear", "Map.Clear(nil) removes every key", func(c *CallCtx) []Outcome {
		d, _ := c.x.coll(c.args[0])
		h := handleOf(c.args[1])
		c.x.ghostSet(c.st, h, d.name, fmt.Sprintf("((as const %s) (as None (Opt %s)))", d.sort, c.x.enc.Sort(d.valTy)))
		return c.ret(nilErr())
	})
	reg("(cosmossdk.io/collections.Map[K, V]).Walk", "Map.Walk visits exactly the present keys of the range in key order (descending if requested) until the callback returns stop or an error, which it propagates (A-COLL)", walkIntrinsic)
	reg("(cosmossdk.io/collections.Item[V]).Get", "Item.Get returns (v,nil) if set, else (zero, ErrNotFound)", func(c *CallCtx) []Outcome {
		d, ok := c.x.coll(c.args[0])
		if !ok {
			c.x.fail("Item.Get on %s", describe(c.args[0]))
			return nil
		}
		o := c.x.ghostGet(c.st, handleOf(c.args[1]), d.name, d.sort, d.gi)
		some := isSomeT(o, d.sort)
		for _, f := range c.x.enc.TypeFacts(app("val", o), d.valTy, 0) {
			c.st.Assume(implies(some, f))
		}
		return c.ret(TV{T: ite(some, app("val", o), c.x.enc.Zero(d.valTy)), Ty: d.valTy}, TV{T: ite(some, "0", c.x.errNotFound()), Ty: tError})
	})
	reg("(cosmossdk.io/collections.Item[V]).Has", "Item.Has returns (isSet,nil)", func(c *CallCtx) []Outcome {
		d, _ := c.x.coll(c.args[0])
		o := c.x.ghostGet(c.st, handleOf(c.args[1]), d.name, d.sort, d.gi)
		return c.ret(TV{T: isSomeT(o, d.sort), Ty: tBool}, nilErr())
	})
	reg("(cosmossdk.io/collections.Item[V]).Set", "Item.Set stores the value and returns nil", func(c *CallCtx) []Outcome {
		d, _ := c.x.coll(c.args[0])
		c.x.ghostSet(c.st, handleOf(c.args[1]), d.name, app("Some", c.t(2)))
		return c.ret(nilErr())
	})
	reg("(cosmossdk.io/collections.Sequence).Peek", "Sequence.Peek returns the stored value, or DefaultSequenceStart (0) if unset", func(c *CallCtx) []Outcome {
		d, _ := c.x.coll(c.args[0])
		v := c.x.ghostGet(c.st, handleOf(c.args[1]), d.name, d.sort, d.gi)
		c.st.Assume(and(app(">=", v, "0"), app("<", v, two63))) // A-CTR: counters stay far below 2^64
		c.x.enc.usedAssum["A-CTR: sequence counters stay below 2^63"] = true
		return c.ret(TV{T: v, Ty: tUint64}, nilErr())
	})
	reg("(cosmossdk.io/collections.Sequence).Next", "Sequence.Next returns the stored value (0 if unset) and stores value+1 (machine wrap-around at 2^64)", func(c *CallCtx) []Outcome {
		d, _ := c.x.coll(c.args[0])
		h := handleOf(c.args[1])
		v := c.x.ghostGet(c.st, h, d.name, d.sort, d.gi)
		c.st.Assume(and(app(">=", v, "0"), app("<", v, two63))) // A-CTR
		c.x.enc.usedAssum["A-CTR: sequence counters stay below 2^63"] = true
		c.x.ghostSet(c.st, h, d.name, app("+", v, "1"))
		return c.ret(TV{T: v, Ty: tUint64}, nilErr())
	})
	reg("(cosmossdk.io/collections.Sequence).Set", "Sequence.Set stores the value", func(c *CallCtx) []Outcome {
		d, _ := c.x.coll(c.args[0])
		c.x.ghostSet(c.st, handleOf(c.args[1]), d.name, c.t(2))
		return c.ret(nilErr())
	})
	reg("cosmossdk.io/collections.Join", "Join(a,b) is the pair (a,b)", func(c *CallCtx) []Outcome {
		return c.ret(TV{T: app("mkpair", c.t(0), c.t(1)), Ty: c.resultType(0)})
	})
	reg("(cosmossdk.io/collections.Pair[K1, K2]).K1", "Pair.K1 is the first component", func(c *CallCtx) []Outcome {
		return c.ret(TV{T: simpProj("fst", c.t(0)), Ty: c.resultType(0)})
	})
	reg("(cosmossdk.io/collections.Pair[K1, K2]).K2", "Pair.K2 is the second component", func(c *CallCtx) []Outcome {
		return c.ret(TV{T: simpProj("snd", c.t(0)), Ty: c.resultType(0)})
	})
	reg("cosmossdk.io/collections.NewPrefixedPairRange", "NewPrefixedPairRange(p) ranges over exactly the keys whose first component is p, ascending", func(c *CallCtx) []Outcome {
		return c.ret(RangeV{Prefix: c.t(0)})
	})
	reg("cosmossdk.io/collections.PairPrefix", "PairPrefix(a) is the smallest key with first component a (second component: the empty / zero value)", func(c *CallCtx) []Outcome {
		rt := c.resultType(0)
		second := "0"
		if n, ok := types.Unalias(rt).(*types.Named); ok && n.TypeArgs() != nil && n.TypeArgs().Len() == 2 {
			second = c.x.enc.Zero(n.TypeArgs().At(1))
		}
		return c.ret(TV{T: app("mkpair", c.t(0), second), Ty: rt})
	})
	reg("cosmossdk.io/collections.NewPrefixUntilPairRange", "NewPrefixUntilPairRange(p) ranges over the keys whose first component is at most p, in key order", func(c *CallCtx) []Outcome {
		return c.ret(RangeV{Until: c.t(0)})
	})
	rangeOf := func(c *CallCtx) (RangeV, bool) {
		switch r := c.args[0].(type) {
		case RangeV:
			return r, true
		case PtrV:
			if rv, ok := c.x.load(c.st, r, nil).(RangeV); ok {
				return rv, true
			}
		}
		c.x.fail("range method on %s", describe(c.args[0]))
		return RangeV{}, false
	}
	for _, recv := range []string{"(*cosmossdk.io/collections.PairRange[K1, K2])", "(*cosmossdk.io/collections.Range[K])"} {
		recv := recv
		reg(recv+".Descending", "Descending reverses the iteration order", func(c *CallCtx) []Outcome {
			r, _ := rangeOf(c)
			r.Desc = true
			return c.ret(r)
		})
		bound := func(lo, incl bool) func(c *CallCtx) []Outcome {
			return func(c *CallCtx) []Outcome {
				r, _ := rangeOf(c)
				if strings.Contains(recv, "collections.Range[") && strings.HasPrefix(c.x.enc.Sort(c.tv(1).Ty), "(Pair") {
					r.KeyBounds = true
				}
				if lo {
					r.Lo, r.LoIncl = c.t(1), incl
				} else {
					r.Hi, r.HiIncl = c.t(1), incl
				}
				return c.ret(r)
			}
		}
		reg(recv+".StartInclusive", "StartInclusive(k) keeps the keys (second components) >= k", bound(true, true))
		reg(recv+".StartExclusive", "StartExclusive(k) keeps the keys (second components) > k", bound(true, false))
		reg(recv+".EndInclusive", "EndInclusive(k) keeps the keys (second components) <= k", bound(false, true))
		reg(recv+".EndExclusive", "EndExclusive(k) keeps the keys (second components) < k", bound(false, false))
	}

	// ----- errors --------------------------------------------------------------------------
	same := func(c *CallCtx) []Outcome { return c.ret(TV{T: c.t(0), Ty: tError}) }
	reg("(*cosmossdk.io/errors.Error).Wrap", "Wrap keeps the identity of the sentinel error (errors.Is holds)", same)
	reg("(*cosmossdk.io/errors.Error).Wrapf", "Wrapf keeps the identity of the sentinel error (errors.Is holds)", same)
	reg("cosmossdk.io/errors.Wrap", "errors.Wrap(err,..) is nil iff err is nil and keeps err's identity", same)
	reg("cosmossdk.io/errors.Wrapf", "errors.Wrapf(err,..) is nil iff err is nil and keeps err's identity", same)
	reg("errors.Is", "errors.Is(err,target) compares error identities", func(c *CallCtx) []Outcome {
		return c.ret(TV{T: eq(c.t(0), c.t(1)), Ty: tBool})
	})
	newErr := func(c *CallCtx) []Outcome { return c.ret(c.freshErr()) }
	reg("errors.New", "errors.New returns a non-nil error", newErr)
	reg("fmt.Errorf", "fmt.Errorf returns a non-nil error", newErr)
	reg("google.golang.org/grpc/status.Error", "status.Error returns a non-nil error", newErr)
	reg("google.golang.org/grpc/status.Errorf", "status.Errorf returns a non-nil error", newErr)

	// ----- strings / formatting --------------------------------------------------------------
	reg("fmt.Sprintf", "fmt.Sprintf is a pure function of its format and arguments (A-FMT); distinct formats are distinct uninterpreted functions", func(c *CallCtx) []Outcome {
		format := c.t(0)
		name := "sprintf." + sanitize(c.x.litText(format))
		var args []TV
		if l, ok := c.args[1].(ListV); ok {
			for _, e := range l.Elems {
				if iv, ok := e.(IfaceV); ok {
					e = iv.V
				}
				if tv, ok := e.(TV); ok && tv.Ty != nil {
					args = append(args, tv)
				} else if e != nil {
					switch e.(type) {
					case SliceRef, MapRef, ByteView:
						args = append(args, c.x.asTV(c.st, e))
					}
				}
			}
		}
		return c.ret(TV{T: c.uf(name, "Bytes", args...), Ty: tString})
	})
	reg("strconv.FormatUint", "strconv.FormatUint(x,10) is an injective function of x", func(c *CallCtx) []Outcome {
		if c.t(1) != "10" {
			return c.ret(TV{T: c.uf("fmtUbase", "Bytes", c.tv(0), c.tv(1)), Ty: tString})
		}
		c.x.enc.DeclFun("fmtU64", []string{"Int"}, "Bytes")
		return c.ret(TV{T: app("fmtU64", c.t(0)), Ty: tString})
	})
	reg("strconv.FormatBool", "strconv.FormatBool is a function of its argument", func(c *CallCtx) []Outcome {
		c.x.enc.DeclFun("fmtBool", []string{"Bool"}, "Bytes")
		return c.ret(TV{T: app("fmtBool", c.t(0)), Ty: tString})
	})
	reg("encoding/hex.EncodeToString", "hex.EncodeToString is an injective function of the bytes", func(c *CallCtx) []Outcome {
		c.x.enc.DeclFun("hexenc", []string{"Bytes"}, "Bytes")
		return c.ret(TV{T: app("hexenc", c.t(0)), Ty: tString})
	})
	reg("(cosmossdk.io/math.Int).String", "Int.String is an injective function of the integer", func(c *CallCtx) []Outcome {
		c.x.enc.DeclFun("intStr", []string{"Int"}, "Bytes")
		return c.ret(TV{T: app("intStr", c.t(0)), Ty: tString})
	})
	reg("(github.com/initia-labs/OPinit/x/ophost/types.BatchInfo_ChainType).StringWithoutPrefix", "event-attribute formatting helper abstracted as a pure function of the enum value that panics unless the value is in the generated name table {0,1,2} (A-ENUMSTR: the real body cy.String()[len(prefix):] panics with slice bounds out of range otherwise, e.g. 7 -> \"7\"[11:]; reachable through MsgUpdateBatchInfo, whose Validate rejects only UNSPECIFIED; the panic aborts the transaction (A-TX), so the panicking path is pruned, or is a failed obligation under opt nopanic)", func(c *CallCtx) []Outcome {
		c.x.enc.DeclFun("chainTypeStr", []string{"Int"}, "Bytes")
		c.x.panicUnless(c, and(app("<=", "0", c.t(0)), app("<=", c.t(0), "2")), "BatchInfo_ChainType.StringWithoutPrefix")
		return c.ret(TV{T: app("chainTypeStr", c.t(0)), Ty: tString})
	})
	reg("bytes.Equal", "bytes.Equal compares byte values (nil and empty are equal) (A-CMP)", func(c *CallCtx) []Outcome {
		return c.ret(TV{T: eq(c.t(0), c.t(1)), Ty: tBool})
	})
	reg("bytes.Compare", "bytes.Compare is the lexicographic total order on byte values: result in {-1,0,1}, 0 iff equal, antisymmetric (A-CMP)", func(c *CallCtx) []Outcome {
		return c.ret(TV{T: c.x.bcmp(c.t(0), c.t(1)), Ty: tInt})
	})

	// ----- time ------------------------------------------------------------------------------
	reg("(time.Time).Add", "Time.Add(d) = t + d nanoseconds, no saturation (A-TIME)", func(c *CallCtx) []Outcome {
		c.x.enc.usedAssum["A-TIME"] = true
		return c.ret(TV{T: app("+", c.t(0), c.t(1)), Ty: c.tv(0).Ty})
	})
	reg("(time.Time).Unix", "Time.Unix() = floor(nanoseconds / 1e9)", func(c *CallCtx) []Outcome {
		return c.ret(TV{T: app("div", c.t(0), "1000000000"), Ty: tInt64})
	})
	reg("(time.Time).After", "Time.After compares instants", func(c *CallCtx) []Outcome {
		return c.ret(TV{T: app(">", c.t(0), c.t(1)), Ty: tBool})
	})
	reg("(time.Time).UnixNano", "Time.UnixNano() = nanoseconds (A-TIME)", func(c *CallCtx) []Outcome {
		return c.ret(TV{T: c.t(0), Ty: tInt64})
	})
	reg("(time.Duration).Nanoseconds", "Duration.Nanoseconds() = the int64 count itself", func(c *CallCtx) []Outcome {
		return c.ret(TV{T: c.t(0), Ty: tInt64})
	})
	reg("(time.Duration).Microseconds", "Duration.Microseconds() = ns / 1e3 truncated toward zero", func(c *CallCtx) []Outcome {
		t := c.t(0)
		return c.ret(TV{T: ite(app(">=", t, "0"), app("div", t, "1000"), app("-", app("div", app("-", t), "1000"))), Ty: tInt64})
	})
	reg("(time.Duration).Milliseconds", "Duration.Milliseconds() = ns / 1e6 truncated toward zero", func(c *CallCtx) []Outcome {
		t := c.t(0)
		return c.ret(TV{T: ite(app(">=", t, "0"), app("div", t, "1000000"), app("-", app("div", app("-", t), "1000000"))), Ty: tInt64})
	})
	reg("(time.Time).Before", "Time.Before compares instants", func(c *CallCtx) []Outcome {
		return c.ret(TV{T: app("<", c.t(0), c.t(1)), Ty: tBool})
	})
	reg("(time.Time).Equal", "Time.Equal compares instants", func(c *CallCtx) []Outcome {
		return c.ret(TV{T: eq(c.t(0), c.t(1)), Ty: tBool})
	})
	reg("(time.Time).Sub", "Time.Sub(u) = t - u nanoseconds, saturated to the int64 Duration range", func(c *CallCtx) []Outcome {
		d := app("-", c.t(0), c.t(1))
		mx, mn := "9223372036854775807", "(- 9223372036854775808)"
		return c.ret(TV{T: ite(app(">", d, mx), mx, ite(app("<", d, mn), mn, d)), Ty: c.resultType(0)})
	})
	reg("(time.Time).UTC", "UTC() denotes the same instant", func(c *CallCtx) []Outcome { return c.ret(c.args[0]) })
	reg("time.Unix", "time.Unix(s,ns) = s*1e9+ns", func(c *CallCtx) []Outcome {
		return c.ret(TV{T: app("+", app("*", c.t(0), "1000000000"), c.t(1)), Ty: c.resultType(0)})
	})

	// ----- sdk context -------------------------------------------------------------------------
	reg("github.com/cosmos/cosmos-sdk/types.UnwrapSDKContext", "UnwrapSDKContext yields the same store handle", func(c *CallCtx) []Outcome {
		v := c.args[0]
		if iv, ok := v.(IfaceV); ok {
			v = iv.V
		}
		return c.ret(v)
	})
	reg("(github.com/cosmos/cosmos-sdk/types.Context).BlockTime", "BlockTime is the header time of the current block", func(c *CallCtx) []Outcome {
		return c.ret(TV{T: c.x.blockTime(), Ty: c.resultType(0)})
	})
	reg("(github.com/cosmos/cosmos-sdk/types.Context).BlockHeight", "BlockHeight is the header height of the current block", func(c *CallCtx) []Outcome {
		return c.ret(TV{T: c.x.blockHeight(), Ty: tInt64})
	})
	reg("(github.com/cosmos/cosmos-sdk/types.Context).BlockHeader", "BlockHeader is the header of the current block (a fixed value of the context)", func(c *CallCtx) []Outcome {
		ty := c.resultType(0)
		return c.ret(TV{T: c.x.enc.DeclConst("ctx.header", c.x.enc.Sort(ty)), Ty: ty})
	})
	reg("(github.com/cosmos/cosmos-sdk/types.Context).EventManager", "EventManager is the event sink of the context", func(c *CallCtx) []Outcome {
		return c.ret(ObjV{Path: fmt.Sprintf("evmgr@%d", handleOf(c.args[0])), Ty: c.resultType(0)})
	})
	reg("(github.com/cosmos/cosmos-sdk/types.Context).CacheContext", "CacheContext returns a branched store (initially equal to the parent, with a fresh event manager) and a write function that copies the branch state and events into the parent", func(c *CallCtx) []Outcome {
		parent := handleOf(c.args[0])
		h := c.x.newHandle(c.st, parent)
		cv := c.args[0].(CtxV)
		return c.ret(CtxV{H: h, Gas: cv.Gas}, CommitV{Child: h, Parent: parent})
	})
	ctxBool := func(name string) Intrinsic {
		return func(c *CallCtx) []Outcome {
			c.x.enc.DeclConst(name, "Bool")
			return c.ret(TV{T: name, Ty: tBool})
		}
	}
	reg("(github.com/cosmos/cosmos-sdk/types.Context).IsCheckTx", "IsCheckTx is a fixed flag of the context", ctxBool("ctx.isCheckTx"))
	reg("(github.com/cosmos/cosmos-sdk/types.Context).IsReCheckTx", "IsReCheckTx is a fixed flag of the context", ctxBool("ctx.isReCheckTx"))
	reg("(github.com/cosmos/cosmos-sdk/types.Context).Logger", "logging has no effect on state", func(c *CallCtx) []Outcome {
		return c.ret(ObjV{Path: "logger", Ty: c.resultType(0)})
	})
	reg("cosmossdk.io/log.Logger.With", "logging has no effect on state", func(c *CallCtx) []Outcome { return c.ret(c.args[0]) })
	for _, m := range []string{"Info", "Error", "Debug", "Warn"} {
		reg("cosmossdk.io/log.Logger."+m, "logging has no effect on state", func(c *CallCtx) []Outcome { return c.ret() })
	}
	reg("github.com/cosmos/cosmos-sdk/telemetry.ModuleMeasureSince", "telemetry has no effect on state", func(c *CallCtx) []Outcome { return c.ret() })
	reg("time.Now", "time.Now is the wall clock (nondeterministic)", func(c *CallCtx) []Outcome {
		c.x.enc.DeclConst("wallclock", "Int")
		return c.ret(TV{T: "wallclock", Ty: c.resultType(0)})
	})

	// ----- events --------------------------------------------------------------------------------
	reg("github.com/cosmos/cosmos-sdk/types.NewAttribute", "NewAttribute(k,v) is the attribute (k,v)", func(c *CallCtx) []Outcome {
		return c.ret(AttrV{K: c.t(0), V: c.t(1)})
	})
	reg("github.com/cosmos/cosmos-sdk/types.NewEvent", "NewEvent(type, attrs...) is the event with these attributes in order", func(c *CallCtx) []Outcome {
		ev := EvV{Ty: c.t(0)}
		if l, ok := c.args[1].(ListV); ok {
			for _, a := range l.Elems {
				at, ok := a.(AttrV)
				if !ok {
					c.x.fail("NewEvent with non-attribute %s", describe(a))
					return nil
				}
				ev.KV = append(ev.KV, [2]string{at.K, at.V})
			}
		} else if !isNilConst(c.args[1]) {
			if tv, ok := c.args[1].(TV); !ok || seqLen(tv.T) != "0" {
				c.x.fail("NewEvent with opaque attributes %s", describe(c.args[1]))
			}
		}
		return c.ret(ev)
	})
	reg("(github.com/cosmos/cosmos-sdk/types.Event).AppendAttributes", "AppendAttributes appends attributes in order", func(c *CallCtx) []Outcome {
		ev := c.args[0].(EvV)
		nv := EvV{Ty: ev.Ty, KV: append([][2]string(nil), ev.KV...)}
		if l, ok := c.args[1].(ListV); ok {
			for _, a := range l.Elems {
				at := a.(AttrV)
				nv.KV = append(nv.KV, [2]string{at.K, at.V})
			}
		}
		return c.ret(nv)
	})
	emit := func(c *CallCtx) []Outcome {
		mgr, ok := c.args[0].(ObjV)
		h := 0
		if ok {
			fmt.Sscanf(mgr.Path, "evmgr@%d", &h)
		}
		s := c.x.store(c.st, h)
		switch ev := c.args[1].(type) {
		case EvV:
			s.Events = append(s.Events, Event{Ty: ev.Ty, KV: ev.KV})
		case ListV:
			for _, e := range ev.Elems {
				if v, ok := e.(EvV); ok {
					s.Events = append(s.Events, Event{Ty: v.Ty, KV: v.KV})
				} else {
					s.EvOpaque = true
				}
			}
		default:
			s.EvOpaque = true
		}
		return c.ret()
	}
	reg("github.com/cosmos/cosmos-sdk/types.EventManagerI.EmitEvent", "EmitEvent appends the event to the context's event list", emit)
	reg("github.com/cosmos/cosmos-sdk/types.EventManagerI.EmitEvents", "EmitEvents appends the events in order", emit)
	reg("(*github.com/cosmos/cosmos-sdk/types.EventManager).EmitEvent", "EmitEvent appends the event to the context's event list", emit)
	reg("(*github.com/cosmos/cosmos-sdk/types.EventManager).EmitEvents", "EmitEvents appends the events in order", emit)
	reg("github.com/cosmos/cosmos-sdk/types.EmptyEvents", "EmptyEvents is the empty list", func(c *CallCtx) []Outcome { return c.ret(ListV{}) })

	// ----- addresses ---------------------------------------------------------------------------------
	codecOf := func(tag string) Intrinsic {
		return func(c *CallCtx) []Outcome {
			return c.ret(TV{T: tag, Ty: c.resultType(0)})
		}
	}
	reg("AccountKeeper.AddressCodec", "AccountKeeper.AddressCodec is the account address codec (id 1)", codecOf("1"))
	reg("cosmossdk.io/core/address.Codec.StringToBytes", "Codec.StringToBytes is a pure partial function: err == nil iff addrOK(codec,s), then the bytes are addrBytes(codec,s)", func(c *CallCtx) []Outcome {
		e := c.x.enc
		e.DeclFun("addrOK", []string{"Int", "Bytes"}, "Bool")
		e.DeclFun("addrBytes", []string{"Int", "Bytes"}, "Bytes")
		e.DeclConst("ERR_ADDR", "Int")
		e.Axiom("(= ERR_ADDR 900)")
		ok := app("addrOK", c.t(0), c.t(1))
		// a successfully decoded address is never empty (the bech32 codec rejects empty strings / empty payloads)
		c.st.Assume(implies(ok, and(not(eq(app("addrBytes", c.t(0), c.t(1)), "bempty")), not(eq(c.t(1), "bempty")))))
		return c.ret(TV{T: app("addrBytes", c.t(0), c.t(1)), Ty: tBytes}, TV{T: ite(ok, "0", "ERR_ADDR"), Ty: tError})
	})
	reg("cosmossdk.io/core/address.Codec.BytesToString", "Codec.BytesToString is a pure partial function inverse to StringToBytes", func(c *CallCtx) []Outcome {
		e := c.x.enc
		e.DeclFun("addrStr", []string{"Int", "Bytes"}, "Bytes")
		e.DeclFun("addrStrOK", []string{"Int", "Bytes"}, "Bool")
		e.DeclConst("ERR_ADDR", "Int")
		e.Axiom("(= ERR_ADDR 900)")
		ok := app("addrStrOK", c.t(0), c.t(1))
		return c.ret(TV{T: app("addrStr", c.t(0), c.t(1)), Ty: tString}, TV{T: ite(ok, "0", "ERR_ADDR"), Ty: tError})
	})
	reg("github.com/cosmos/cosmos-sdk/types/address.Module", "address.Module(name,key) is an injective function of (name,key) producing 32 bytes (A-HASH)", func(c *CallCtx) []Outcome {
		e := c.x.enc
		e.DeclFun("addrModule", []string{"Bytes", "Bytes"}, "Bytes")
		keys := c.tv(1)
		if seqLen(keys.T) != "1" {
			c.x.fail("address.Module with other than one derivation key")
			return nil
		}
		k := simpSelect(app("gseq.arr", keys.T), "0")
		return c.ret(TV{T: app("addrModule", c.t(0), k), Ty: tBytes})
	})
	reg("(github.com/cosmos/cosmos-sdk/types.AccAddress).String", "AccAddress.String is a pure function of the bytes", func(c *CallCtx) []Outcome {
		c.x.enc.DeclFun("accStr", []string{"Bytes"}, "Bytes")
		return c.ret(TV{T: app("accStr", c.t(0)), Ty: tString})
	})
	reg("(github.com/cosmos/cosmos-sdk/types.ValAddress).String", "ValAddress.String is a pure function of the bytes", func(c *CallCtx) []Outcome {
		e := c.x.enc
		e.DeclFun("valStr", []string{"Bytes"}, "Bytes")
		e.DeclFun("addrOK", []string{"Int", "Bytes"}, "Bool")
		e.DeclFun("addrBytes", []string{"Int", "Bytes"}, "Bytes")
		s := app("valStr", c.t(0))
		// A-VALSTR: ValAddress.String is the bech32 encoding the validator address codec (id 2) decodes back
		e.Axiom(implies(not(eq(c.t(0), "bempty")), and(app("addrOK", "2", s), eq(app("addrBytes", "2", s), c.t(0)))))
		e.usedAssum["A-VALSTR: validatorAddressCodec.StringToBytes(ValAddress(b).String()) == b for non-empty b"] = true
		return c.ret(TV{T: s, Ty: tString})
	})

	// ----- coins -----------------------------------------------------------------------------------------
	reg("(github.com/cosmos/cosmos-sdk/types.Coin).IsPositive", "Coin.IsPositive = amount > 0", func(c *CallCtx) []Outcome {
		return c.ret(TV{T: app(">", c.x.coinAmt(c.tv(0)), "0"), Ty: tBool})
	})
	reg("(github.com/cosmos/cosmos-sdk/types.Coin).IsZero", "Coin.IsZero = amount == 0", func(c *CallCtx) []Outcome {
		return c.ret(TV{T: eq(c.x.coinAmt(c.tv(0)), "0"), Ty: tBool})
	})
	reg("(github.com/cosmos/cosmos-sdk/types.Coin).IsValid", "Coin.IsValid = validDenom(denom) and amount >= 0 (cosmos-sdk v0.50 types/coin.go Validate)", func(c *CallCtx) []Outcome {
		c.x.enc.DeclFun("validDenom", []string{"Bytes"}, "Bool")
		return c.ret(TV{T: and(app("validDenom", c.x.coinDenom(c.tv(0))), app(">=", c.x.coinAmt(c.tv(0)), "0")), Ty: tBool})
	})
	reg("github.com/cosmos/cosmos-sdk/types.ValidateDenom", "ValidateDenom(d) == nil iff validDenom(d)", func(c *CallCtx) []Outcome {
		c.x.enc.DeclFun("validDenom", []string{"Bytes"}, "Bool")
		c.x.enc.DeclConst("ERR_DENOM", "Int")
		c.x.enc.Axiom("(= ERR_DENOM 901)")
		return c.ret(TV{T: ite(app("validDenom", c.t(0)), "0", "ERR_DENOM"), Ty: tError})
	})
	reg("github.com/cosmos/cosmos-sdk/types.NewCoin", "NewCoin(d,a) is the coin (d,a); it panics unless validDenom(d) and a >= 0", func(c *CallCtx) []Outcome {
		c.x.enc.DeclFun("validDenom", []string{"Bytes"}, "Bool")
		ty := c.resultType(0)
		c.x.panicUnless(c, and(app("validDenom", c.t(0)), app(">=", c.t(1), "0")), "NewCoin")
		return c.ret(TV{T: app("mk."+c.x.enc.Sort(ty), c.t(0), c.t(1)), Ty: ty})
	})
	reg("github.com/cosmos/cosmos-sdk/types.NewCoins", "NewCoins(c) for a single coin is [] if the amount is zero and [c] otherwise; it panics if the coin is invalid", func(c *CallCtx) []Outcome {
		ty := c.resultType(0)
		l, ok := c.args[0].(TV)
		if !ok || seqLen(l.T) != "1" {
			if ok && seqLen(l.T) == "0" {
				return c.ret(TV{T: c.x.enc.Zero(ty), Ty: ty})
			}
			c.x.fail("NewCoins with other than one coin")
			return nil
		}
		coin := TV{T: simpSelect(app("gseq.arr", l.T), "0"), Ty: elemType(ty)}
		c.x.enc.DeclFun("validDenom", []string{"Bytes"}, "Bool")
		c.x.panicUnless(c, and(app("validDenom", c.x.coinDenom(coin)), app(">=", c.x.coinAmt(coin), "0")), "NewCoins")
		es := c.x.enc.Sort(elemType(ty))
		arr := fmt.Sprintf("(store ((as const (Array Int %s)) %s) 0 %s)", es, c.x.enc.Zero(elemType(ty)), coin.T)
		r := TV{T: app("mkseq", arr, ite(eq(c.x.coinAmt(coin), "0"), "0", "1")), Ty: ty}
		c.x.singleCoin[r.T] = coin
		return c.ret(r)
	})
	reg("(github.com/cosmos/cosmos-sdk/types.Coins).IsZero", "Coins.IsZero: the (normalised) set is empty or all amounts are zero", func(c *CallCtx) []Outcome {
		if coin, ok := c.x.singleCoin[c.t(0)]; ok {
			return c.ret(TV{T: eq(c.x.coinAmt(coin), "0"), Ty: tBool})
		}
		// general list with at most one coin (obligation): empty or its only coin is zero
		cs := c.tv(0)
		coin0 := TV{T: simpSelect(app("gseq.arr", cs.T), "0"), Ty: elemType(cs.Ty)}
		gen := c.uf("coinsIsZero", "Bool", cs)
		return c.ret(TV{T: ite(app("<=", seqLen(cs.T), "1"), or(eq(seqLen(cs.T), "0"), eq(c.x.coinAmt(coin0), "0")), gen), Ty: tBool})
	})
	reg("(cosmossdk.io/math.Int).Uint64", "Int.Uint64 returns the value; it panics unless 0 <= i < 2^64", func(c *CallCtx) []Outcome {
		c.x.panicUnless(c, and(app(">=", c.t(0), "0"), app("<", c.t(0), two64)), "Int.Uint64")
		return c.ret(TV{T: c.t(0), Ty: tUint64})
	})
	reg("(cosmossdk.io/math.Int).Int64", "Int.Int64 returns the value; it panics unless it fits int64", func(c *CallCtx) []Outcome {
		c.x.panicUnless(c, and(app(">=", c.t(0), "(- "+two63+")"), app("<", c.t(0), two63)), "Int.Int64")
		return c.ret(TV{T: c.t(0), Ty: tInt64})
	})
	reg("cosmossdk.io/math.NewIntFromUint64", "NewIntFromUint64(x) = x", func(c *CallCtx) []Outcome { return c.ret(TV{T: c.t(0), Ty: c.resultType(0)}) })
	reg("cosmossdk.io/math.NewInt", "NewInt(x) = x", func(c *CallCtx) []Outcome { return c.ret(TV{T: c.t(0), Ty: c.resultType(0)}) })
	reg("cosmossdk.io/math.ZeroInt", "ZeroInt() = 0", func(c *CallCtx) []Outcome { return c.ret(TV{T: "0", Ty: c.resultType(0)}) })
	reg("(cosmossdk.io/math.Int).Add", "Int.Add is mathematical addition", func(c *CallCtx) []Outcome {
		return c.ret(TV{T: app("+", c.t(0), c.t(1)), Ty: c.resultType(0)})
	})
	reg("(cosmossdk.io/math.Int).IsZero", "Int.IsZero", func(c *CallCtx) []Outcome { return c.ret(TV{T: eq(c.t(0), "0"), Ty: tBool}) })
	reg("(cosmossdk.io/math.Int).IsPositive", "Int.IsPositive", func(c *CallCtx) []Outcome { return c.ret(TV{T: app(">", c.t(0), "0"), Ty: tBool}) })
	reg("(cosmossdk.io/math.Int).IsUint64", "Int.IsUint64 = 0 <= i < 2^64", func(c *CallCtx) []Outcome {
		return c.ret(TV{T: and(app(">=", c.t(0), "0"), app("<", c.t(0), two64)), Ty: tBool})
	})

	// ----- bank --------------------------------------------------------------------------------------------------
	reg("BankKeeper.SendCoins", "SendCoins(from,to,coins): either returns an error and leaves the bank unchanged, or returns nil, requires bal[from,d] >= a and moves exactly a of d from `from` to `to` for each coin (A-BANK)", func(c *CallCtx) []Outcome {
		c.fundedOnly = c.x.topC != nil && c.x.topC.Opts["send_succeeds_if_funded"]
		return c.x.bankTransfer(c, c.t(2), c.t(3), c.tv(4))
	})
	reg("BankKeeper.SendCoinsFromModuleToAccount", "SendCoinsFromModuleToAccount(module,to,coins) is SendCoins from moduleAddr(module) (A-BANK); additionally fails for blocked recipients; may panic (demonic outcome, e.g. a receiving contract hook)", func(c *CallCtx) []Outcome {
		return c.maybePanic(c.x.bankTransfer(c, c.x.moduleAddr(c.t(2)), c.t(3), c.tv(4)), "SendCoinsFromModuleToAccount")
	})
	reg("BankKeeper.SendCoinsFromAccountToModule", "SendCoinsFromAccountToModule(from,module,coins) is SendCoins to moduleAddr(module) (A-BANK)", func(c *CallCtx) []Outcome {
		c.fundedOnly = c.x.topC != nil && c.x.topC.Opts["reclaim_succeeds_if_funded"]
		return c.x.bankTransfer(c, c.t(2), c.x.moduleAddr(c.t(3)), c.tv(4))
	})
	reg("BankKeeper.MintCoins", "MintCoins(module,coins): error and no change, or nil and balance of moduleAddr(module) and supply both increase by the amounts (A-BANK)", func(c *CallCtx) []Outcome {
		return c.maybePanic(c.x.bankMintBurn(c, c.x.moduleAddr(c.t(2)), c.tv(3), "+"), "MintCoins")
	})
	reg("BankKeeper.BurnCoins", "BurnCoins(module,coins): error and no change, or nil, requires the module balance to cover, and module balance and supply both decrease (A-BANK)", func(c *CallCtx) []Outcome {
		c.fundedOnly = c.x.topC != nil && c.x.topC.Opts["reclaim_succeeds_if_funded"]
		return c.x.bankMintBurn(c, c.x.moduleAddr(c.t(2)), c.tv(3), "-")
	})
	reg("BankKeeper.HasDenomMetaData", "HasDenomMetaData reads bank metadata only", func(c *CallCtx) []Outcome {
		arr := c.x.ghostGet(c.st, handleOf(c.args[1]), "bank.meta", "(Array Bytes Bool)", ghostInfo{Arr: true, Sort: "(Array Bytes Bool)"})
		return c.ret(TV{T: app("select", arr, c.t(2)), Ty: tBool})
	})
	reg("BankKeeper.SetDenomMetaData", "SetDenomMetaData writes bank metadata of that denom only", func(c *CallCtx) []Outcome {
		h := handleOf(c.args[1])
		arr := c.x.ghostGet(c.st, h, "bank.meta", "(Array Bytes Bool)", ghostInfo{Arr: true, Sort: "(Array Bytes Bool)"})
		md := c.tv(2)
		base, _ := c.x.fieldByName(c.st, md, "Base")
		c.x.ghostSet(c.st, h, "bank.meta", app("store", arr, term(base), "true"))
		return c.ret()
	})
	reg("CommunityPoolKeeper.FundCommunityPool", "FundCommunityPool(amount,sender): error and no change, or nil and only balances of the sender and of the distribution module account change (A-BANK)", func(c *CallCtx) []Outcome {
		h := handleOf(c.args[1])
		sender := c.t(3)
		return c.forkFail(func(st *State) []Value {
			bal := c.x.bankBal(st, h)
			nb := c.x.freshGhost("bank.bal", "@fund", bankBalSort)
			dm := c.x.moduleAddr(c.x.enc.Lit("distribution"))
			st.Assume(fmt.Sprintf("(forall ((k (Pair Bytes Bytes))) (! (=> (and (not (= (fst k) %s)) (not (= (fst k) %s))) (= (select %s k) (select %s k))) :pattern ((select %s k))))", sender, dm, nb, bal, nb))
			c.x.ghostSet(st, h, "bank.bal", nb)
			return []Value{nilErr()}
		}, func(st *State, err TV) []Value { return []Value{err} })
	})

	// ----- auth ------------------------------------------------------------------------------------------------------
	reg("github.com/cosmos/cosmos-sdk/x/auth/types.NewBaseAccountWithAddress", "NewBaseAccountWithAddress builds an account object for the address", func(c *CallCtx) []Outcome {
		return c.ret(AccV{Addr: c.t(0)})
	})
	reg("github.com/initia-labs/OPinit/x/ophost/types.NewBridgeAccountWithAddress", "NewBridgeAccountWithAddress builds a bridge account object for the address (wrapper around the auth constructor)", func(c *CallCtx) []Outcome {
		return c.ret(AccV{Addr: c.t(0)})
	})
	reg("AccountKeeper.NewAccount", "NewAccount assigns an account number; touches auth state only (A-AUTH)", func(c *CallCtx) []Outcome { return c.ret(c.args[2]) })
	reg("AccountKeeper.NewAccountWithAddress", "NewAccountWithAddress builds an account; touches auth state only (A-AUTH)", func(c *CallCtx) []Outcome {
		return c.ret(AccV{Addr: c.t(2)})
	})
	reg("AccountKeeper.SetAccount", "SetAccount stores the account; touches auth state only, neither fails nor touches the bank (A-AUTH)", func(c *CallCtx) []Outcome {
		h := handleOf(c.args[1])
		arr := c.x.ghostGet(c.st, h, "auth.acc", "(Array Bytes Bool)", ghostInfo{Arr: true, Sort: "(Array Bytes Bool)"})
		a := c.args[2]
		if iv, ok := a.(IfaceV); ok {
			a = iv.V
		}
		if acc, ok := a.(AccV); ok {
			c.x.ghostSet(c.st, h, "auth.acc", app("store", arr, acc.Addr, "true"))
		} else {
			c.x.ghostSet(c.st, h, "auth.acc", c.x.enc.FreshConst("auth.acc@h", "(Array Bytes Bool)"))
		}
		return c.ret()
	})
	reg("AccountKeeper.HasAccount", "HasAccount reads auth state", func(c *CallCtx) []Outcome {
		arr := c.x.ghostGet(c.st, handleOf(c.args[1]), "auth.acc", "(Array Bytes Bool)", ghostInfo{Arr: true, Sort: "(Array Bytes Bool)"})
		return c.ret(TV{T: app("select", arr, c.t(2)), Ty: tBool})
	})

	// ----- bridge hooks (ophost) --------------------------------------------------------------------------------------
	for _, m := range []string{"BridgeCreated", "BridgeChallengerUpdated", "BridgeProposerUpdated", "BridgeBatchInfoUpdated", "BridgeMetadataUpdated"} {
		m := m
		reg("BridgeHook."+m, "the configured bridge hook may fail; it touches only channel-permission state (perm.admin), never ophost or bank state", func(c *CallCtx) []Outcome {
			h := handleOf(c.args[1])
			c.st.hookCalls = append(c.st.hookCalls, HookCall{H: h, Name: m, Bridge: c.t(2), Cfg: c.tv(3)})
			if c.st.hookCount == "" {
				c.st.hookCount = "0"
			}
			c.st.hookCount = fmt.Sprintf("(+ %s 1)", c.st.hookCount)
			return c.forkFail(func(st *State) []Value {
				c.x.ghostGet(st, h, "perm.admin", permAdminSort, ghostInfo{Arr: true, Opt: true, Sort: permAdminSort})
				c.x.ghostSet(st, h, "perm.admin", c.x.enc.FreshConst("perm.admin@hook", permAdminSort))
				return []Value{nilErr()}
			}, func(st *State, err TV) []Value {
				st.hookFailed = true
				return []Value{err}
			})
		})
	}
}

const bankBalSort = "(Array (Pair Bytes Bytes) Int)"
const bankSupplySort = "(Array Bytes Int)"
const permAdminSort = "(Array (Pair Bytes Bytes) (Opt Bytes))"

func simpProj(f, t string) string {
	if strings.HasPrefix(t, "(mkpair ") {
		p := splitTop(t[1 : len(t)-1])
		if len(p) == 3 {
			if f == "fst" {
				return p[1]
			}
			return p[2]
		}
	}
	return app(f, t)
}

func (x *Exec) errNotFound() string {
	// the same identity as the package-level sentinel collections.ErrNotFound
	name := "G_cosmossdk.io_collections_ErrNotFound"
	x.enc.DeclConst(name, "Int")
	x.enc.Axiom(fmt.Sprintf("(= %s %d)", name, x.sentinelID(name)))
	return name
}

func (x *Exec) litText(c string) string {
	for s, n := range x.enc.lits {
		if n == c {
			return s
		}
	}
	return c
}

func (x *Exec) coinAmt(c TV) string {
	v, _ := x.fieldByName(nil, c, "Amount")
	return term(v)
}
func (x *Exec) coinDenom(c TV) string {
	v, _ := x.fieldByName(nil, c, "Denom")
	return term(v)
}

func (x *Exec) moduleAddr(name string) string {
	x.enc.DeclFun("moduleAddr", []string{"Bytes"}, "Bytes")
	return app("moduleAddr", name)
}

func (x *Exec) bankBal(st *State, h int) string {
	return x.ghostGet(st, h, "bank.bal", bankBalSort, ghostInfo{Arr: true, Sort: bankBalSort})
}
func (x *Exec) bankSupply(st *State, h int) string {
	return x.ghostGet(st, h, "bank.supply", bankSupplySort, ghostInfo{Arr: true, Sort: bankSupplySort})
}

// panicUnless: the callee panics unless cond. Under "nopanic" this is a safety obligation;
// otherwise the panicking executions are aborted transactions (A-TX) and only cond-executions continue.
func (x *Exec) panicUnless(c *CallCtx, cond, what string) {
	if x.nopanic {
		x.addObl("safe", what+"@"+x.pos(c.instr.Pos()), what+" must not panic: "+cond, c.st, cond, nil)
	}
	c.st.Assume(cond)
}

// bankTransfer models SendCoins for a coin list produced by NewCoins(single coin).
func (x *Exec) bankTransfer(c *CallCtx, from, to string, coins TV) []Outcome {
	h := handleOf(c.args[1])
	coin, single := x.singleCoin[coins.T]
	nonEmpty := "true"
	multi := "false"
	if !single && coins.Ty != nil && strings.HasPrefix(x.enc.Sort(coins.Ty), "(GSeq") {
		// general list: precise for at most one coin (an empty list moves nothing), unknown effect otherwise
		coin = TV{T: simpSelect(app("gseq.arr", coins.T), "0"), Ty: elemType(coins.Ty)}
		nonEmpty = eq(seqLen(coins.T), "1")
		single = true
		multi = app(">", seqLen(coins.T), "1")
	}
	return c.forkFail(func(st *State) []Value {
		bal := x.bankBal(st, h)
		if !single {
			x.warn("bank transfer of a general coin list: balances havocked")
			x.ghostSet(st, h, "bank.bal", x.freshGhost("bank.bal", "@h", bankBalSort))
			return []Value{nilErr()}
		}
		d, a := x.coinDenom(coin), ite(nonEmpty, x.coinAmt(coin), "0")
		kf := app("mkpair", from, d)
		kt := app("mkpair", to, d)
		st.Assume(implies(app(">", a, "0"), app(">=", app("select", bal, kf), a)))
		b1 := app("store", bal, kf, app("-", app("select", bal, kf), a))
		b2 := app("store", b1, kt, app("+", app("select", b1, kt), a))
		if multi != "false" {
			b2 = ite(multi, x.freshGhost("bank.bal", "@multi", bankBalSort), b2)
		}
		x.ghostSet(st, h, "bank.bal", b2)
		return []Value{nilErr()}
	}, func(st *State, err TV) []Value {
		if c.fundedOnly && single {
			// assumption (listed): this transfer fails only when the sender's balance does not cover the amount
			bal := x.bankBal(st, h)
			st.Assume(app("<", app("select", bal, app("mkpair", from, x.coinDenom(coin))), x.coinAmt(coin)))
		}
		return []Value{err}
	})
}

func (x *Exec) bankMintBurn(c *CallCtx, mod string, coins TV, op string) []Outcome {
	h := handleOf(c.args[1])
	coin, single := x.singleCoin[coins.T]
	nonEmpty := "true"
	multi := "false"
	if !single && coins.Ty != nil && strings.HasPrefix(x.enc.Sort(coins.Ty), "(GSeq") {
		coin = TV{T: simpSelect(app("gseq.arr", coins.T), "0"), Ty: elemType(coins.Ty)}
		nonEmpty = eq(seqLen(coins.T), "1")
		single = true
		multi = app(">", seqLen(coins.T), "1")
	}
	return c.forkFail(func(st *State) []Value {
		bal := x.bankBal(st, h)
		sup := x.bankSupply(st, h)
		if !single {
			x.warn("mint/burn of a general coin list: balances havocked")
			x.ghostSet(st, h, "bank.bal", x.freshGhost("bank.bal", "@h", bankBalSort))
			x.ghostSet(st, h, "bank.supply", x.enc.FreshConst("bank.supply@h", bankSupplySort))
			return []Value{nilErr()}
		}
		d, a := x.coinDenom(coin), ite(nonEmpty, x.coinAmt(coin), "0")
		k := app("mkpair", mod, d)
		if op == "-" {
			st.Assume(app(">=", app("select", bal, k), a))
		}
		nb := app("store", bal, k, app(op, app("select", bal, k), a))
		ns := app("store", sup, d, app(op, app("select", sup, d), a))
		if multi != "false" {
			nb = ite(multi, x.freshGhost("bank.bal", "@multi", bankBalSort), nb)
			ns = ite(multi, x.freshGhost("bank.supply", "@multi", bankSupplySort), ns)
		}
		x.ghostSet(st, h, "bank.bal", nb)
		x.ghostSet(st, h, "bank.supply", ns)
		return []Value{nilErr()}
	}, func(st *State, err TV) []Value {
		if c.fundedOnly && single && op == "-" {
			bal := x.bankBal(st, h)
			st.Assume(app("<", app("select", bal, app("mkpair", mod, x.coinDenom(coin))), x.coinAmt(coin)))
		}
		return []Value{err}
	})
}

// walkIntrinsic: Map.Walk with a callback. Without a walk invariant the effect is over-approximated:
// everything the callback can write is havocked and the result is unconstrained.
func walkIntrinsic(c *CallCtx) []Outcome {
	return c.x.walk(c)
}

const chanSeqSort = "(Array (Pair Bytes Bytes) (Opt Int))"

func init() {
	permGhost := func(c *CallCtx, h int) string {
		return c.x.ghostGet(c.st, h, "perm.admin", permAdminSort, ghostInfo{Arr: true, Opt: true, Sort: permAdminSort, ValTy: tBytes})
	}
	reg("PermKeeper.IsTaken", "PermKeeper.IsTaken(port,channel) = (a relayer admin is recorded for the channel); it may fail", func(c *CallCtx) []Outcome {
		h := handleOf(c.args[1])
		k := app("mkpair", c.t(2), c.t(3))
		taken := isSomeT(app("select", permGhost(c, h), k), "(Opt Bytes)")
		return c.forkFail(func(st *State) []Value { return []Value{TV{T: taken, Ty: tBool}, nilErr()} },
			func(st *State, err TV) []Value { return []Value{TV{T: "false", Ty: tBool}, err} })
	})
	reg("PermKeeper.HasAdminPermission", "PermKeeper.HasAdminPermission(port,channel,a) = (the recorded admin equals a); it may fail", func(c *CallCtx) []Outcome {
		h := handleOf(c.args[1])
		k := app("mkpair", c.t(2), c.t(3))
		has := eq(app("select", permGhost(c, h), k), app("Some", c.t(4)))
		return c.forkFail(func(st *State) []Value { return []Value{TV{T: has, Ty: tBool}, nilErr()} },
			func(st *State, err TV) []Value { return []Value{TV{T: "false", Ty: tBool}, err} })
	})
	reg("PermKeeper.SetAdmin", "PermKeeper.SetAdmin(port,channel,a) records a as the admin of exactly that channel, or fails without effect", func(c *CallCtx) []Outcome {
		h := handleOf(c.args[1])
		k := app("mkpair", c.t(2), c.t(3))
		return c.forkFail(func(st *State) []Value {
			cur := c.x.ghostGet(st, h, "perm.admin", permAdminSort, ghostInfo{Arr: true, Opt: true, Sort: permAdminSort, ValTy: tBytes})
			c.x.ghostSet(st, h, "perm.admin", app("store", cur, k, app("Some", c.t(4))))
			return []Value{nilErr()}
		}, func(st *State, err TV) []Value { return []Value{err} })
	})
	reg("ChannelKeeper.GetNextSequenceSend", "ChannelKeeper.GetNextSequenceSend(port,channel) = (next send sequence, channel exists)", func(c *CallCtx) []Outcome {
		h := handleOf(c.args[1])
		g := c.x.ghostGet(c.st, h, "chan.nextSend", chanSeqSort, ghostInfo{Arr: true, Opt: true, Sort: chanSeqSort, ValTy: tUint64})
		sel := app("select", g, app("mkpair", c.t(2), c.t(3)))
		ok := isSomeT(sel, "(Opt Int)")
		c.st.Assume(implies(ok, and(app(">=", app("val", sel), "0"), app("<", app("val", sel), two64))))
		return c.ret(TV{T: ite(ok, app("val", sel), "0"), Ty: tUint64}, TV{T: ok, Ty: tBool})
	})
}
