package main

// Call handling: builtins, intrinsics (assumed contracts of dependencies), contracts of repository
// callees (modular), inlining of small uncontracted repository functions.

import (
	"fmt"
	"go/types"
	"strings"

	"golang.org/x/tools/go/ssa"
)

const repoPrefix = "github.com/initia-labs/OPinit"

type CallCtx struct {
	x     *Exec
	st    *State
	fr    *Frame
	instr ssa.Instruction
	cc    *ssa.CallCommon
	name  string
	args  []Value
	fn    *ssa.Function
	fundedOnly bool
}

func (c *CallCtx) ret(vals ...Value) []Outcome {
	for _, v := range vals {
		if tv, ok := v.(TV); ok && tv.Ty != nil && c.x.enc.Sort(tv.Ty) == "Bytes" {
			c.x.enc.GroundBytes(tv.T)
		}
	}
	return []Outcome{{st: c.st, vals: vals}}
}
func (c *CallCtx) tv(i int) TV                 { return c.x.asTV(c.st, c.args[i]) }
func (c *CallCtx) t(i int) string              { return c.tv(i).T }
func (c *CallCtx) resultType(i int) types.Type {
	sig := c.cc.Signature()
	if c.fn != nil {
		sig = c.fn.Signature
	}
	return sig.Results().At(i).Type()
}

type Intrinsic func(c *CallCtx) []Outcome

func (x *Exec) call(st *State, fr *Frame, ins *ssa.Call) []Outcome {
	return x.callCommon(st, fr, &ins.Call, ins)
}

func (x *Exec) callCommon(st *State, fr *Frame, cc *ssa.CallCommon, instr ssa.Instruction) []Outcome {
	var args []Value
	for _, a := range cc.Args {
		args = append(args, x.val(fr, st, a))
	}
	if cc.IsInvoke() {
		recv := x.val(fr, st, cc.Value)
		return x.invoke(st, fr, recv, cc, args, instr)
	}
	switch v := cc.Value.(type) {
	case *ssa.Builtin:
		return x.builtin(st, fr, v.Name(), cc, args, instr)
	case *ssa.Function:
		return x.staticCall(st, fr, v, args, nil, cc, instr)
	}
	fv := x.val(fr, st, cc.Value)
	return x.callValue(st, fr, fv, args, cc, instr)
}

func (x *Exec) callValue(st *State, fr *Frame, fv Value, args []Value, cc *ssa.CallCommon, instr ssa.Instruction) []Outcome {
	if cc != nil && cc.IsInvoke() && fv == nil {
		recv := x.val(fr, st, cc.Value)
		return x.invoke(st, fr, recv, cc, args, instr)
	}
	switch f := fv.(type) {
	case CloV:
		return x.staticCall(st, fr, f.Fn, args, f.Free, cc, instr)
	case FnV:
		return x.staticCall(st, fr, f.Fn, args, nil, cc, instr)
	case BuiltinV:
		return x.builtin(st, fr, f.Name, cc, args, instr)
	case CommitV:
		x.commit(st, f)
		return []Outcome{{st: st}}
	case BoundV:
		c := &CallCtx{x: x, st: st, fr: fr, instr: instr, cc: cc, name: f.Name, args: append([]Value{f.Recv}, args...)}
		if h, ok := intrinsics[f.Name]; ok {
			x.assumed[f.Name] = true
			return h(c)
		}
	case ObjV:
		name := "dyn:" + lastSeg(f.Path)
		c := &CallCtx{x: x, st: st, fr: fr, instr: instr, cc: cc, name: name, args: append([]Value{f}, args...)}
		if h, ok := intrinsics[name]; ok {
			x.assumed[name] = true
			return h(c)
		}
	case IfaceV:
		return x.callValue(st, fr, f.V, args, cc, instr)
	}
	x.fail("unresolved dynamic call of %s at %s", describe(fv), x.pos(instr.Pos()))
	return nil
}

func lastSeg(p string) string {
	i := strings.LastIndex(p, ".")
	return p[i+1:]
}

func fnName(fn *ssa.Function) string {
	if o := fn.Origin(); o != nil {
		return o.String()
	}
	return fn.String()
}

func inRepo(fn *ssa.Function) bool {
	if fn.Pkg != nil {
		return strings.HasPrefix(fn.Pkg.Pkg.Path(), repoPrefix)
	}
	if fn.Parent() != nil {
		return inRepo(fn.Parent())
	}
	// synthetic wrappers have no package: look at the receiver / object
	if fn.Object() != nil && fn.Object().Pkg() != nil {
		return strings.HasPrefix(fn.Object().Pkg().Path(), repoPrefix)
	}
	if strings.Contains(fn.String(), repoPrefix) && fn.Blocks != nil {
		return true
	}
	return false
}

func contractKey(fn *ssa.Function) string {
	if p := fn.Parent(); p != nil {
		pk := contractKey(p)
		if pk == "" {
			return ""
		}
		for i, af := range p.AnonFuncs {
			if af == fn {
				return fmt.Sprintf("%s$%d", pk, i+1)
			}
		}
		return ""
	}
	if fn.Synthetic != "" && fn.Object() == nil {
		return ""
	}
	obj := fn.Object()
	if obj == nil || obj.Pkg() == nil {
		return ""
	}
	if recv := fn.Signature.Recv(); recv != nil {
		t := deref(recv.Type())
		if n, ok := types.Unalias(t).(*types.Named); ok {
			return obj.Pkg().Path() + ".(" + n.Obj().Name() + ")." + fn.Name()
		}
		return ""
	}
	return obj.Pkg().Path() + "." + fn.Name()
}

func (x *Exec) staticCall(st *State, fr *Frame, fn *ssa.Function, args []Value, free []Value, cc *ssa.CallCommon, instr ssa.Instruction) []Outcome {
	name := fnName(fn)
	c := &CallCtx{x: x, st: st, fr: fr, instr: instr, cc: cc, name: name, args: args, fn: fn}
	if h, ok := intrinsics[name]; ok {
		x.assumed[name] = true
		return h(c)
	}
	if inRepo(fn) && fn.Blocks != nil {
		key := contractKey(fn)
		if fn.Synthetic == "" || fn.Object() != nil {
			if ct, ok := x.db.ByKey[key]; ok && fn != x.top && !ct.Opts["inline"] && !(x.topC != nil && x.topC.Opts["inline:"+fn.Name()]) {
				return x.applyContract(c, ct)
			}
		}
		x.inlined[name] = true
		outs := x.execFunc(st, fn, args, free, fr.depth+1, false, fr)
		return outs
	}
	return x.unknownCall(c)
}

// unknownCall: an external function without an assumed contract. It is treated as a pure,
// deterministic function of its data arguments; this is reported in the evidence.
func (x *Exec) unknownCall(c *CallCtx) []Outcome {
	sig := c.cc.Signature()
	x.warn("unmodelled external call treated as pure function: %s", c.name)
	var argT, argS []string
	pure := true
	for _, a := range c.args {
		switch v := a.(type) {
		case TV:
			if v.Ty == nil {
				pure = false
				continue
			}
			argT = append(argT, v.T)
			argS = append(argS, x.enc.Sort(v.Ty))
		case SliceRef, MapRef:
			tv := x.asTV(c.st, v)
			argT = append(argT, tv.T)
			argS = append(argS, x.enc.Sort(tv.Ty))
		default:
			// objects/contexts do not contribute
		}
	}
	// an external function may write through every pointer it is handed (json.Unmarshal(data, &v), Decode(&v), ...):
	// the pointed-to cells get arbitrary values of their type
	for _, a := range c.args {
		if iv, ok := a.(IfaceV); ok {
			a = iv.V
		}
		if p, ok := a.(PtrV); ok {
			switch cv := c.st.cells[p.Cell].(type) {
			case TV:
				if cv.Ty != nil {
					c.st.cells[p.Cell] = x.freshTV("extwr", cv.Ty, c.st)
					x.warn("unmodelled external call %s may write through its pointer argument: target havocked", c.name)
				}
			case MapRef:
				if bt, ok := c.st.cells[cv.Cell].(TV); ok {
					c.st.cells[cv.Cell] = x.freshTV("extwr", bt.Ty, c.st)
					x.warn("unmodelled external call %s may write through its pointer argument: target map havocked", c.name)
				}
			case SliceRef:
				if bt, ok := c.st.cells[cv.Cell].(TV); ok {
					c.st.cells[p.Cell] = x.freshTV("extwr", bt.Ty, c.st)
				}
			}
		}
	}
	var vals []Value
	for i := 0; i < sig.Results().Len(); i++ {
		rt := sig.Results().At(i).Type()
		if isObjectType(rt) {
			vals = append(vals, ObjV{Path: "ext_" + sanitize(c.name), Ty: rt})
			continue
		}
		if pure {
			f := x.enc.DeclFun(fmt.Sprintf("ext_%s_%d", sanitize(c.name), i), argS, x.enc.Sort(rt))
			t := app(f, argT...)
			for _, fct := range x.enc.TypeFacts(t, rt, 0) {
				c.st.Assume(fct)
			}
			vals = append(vals, TV{T: t, Ty: rt})
		} else {
			vals = append(vals, x.freshTV("ext", rt, c.st))
		}
	}
	return c.ret(vals...)
}

func (x *Exec) invoke(st *State, fr *Frame, recv Value, cc *ssa.CallCommon, args []Value, instr ssa.Instruction) []Outcome {
	ifaceName := namedPath(cc.Value.Type())
	if ifaceName == "" {
		ifaceName = types.TypeString(cc.Value.Type(), nil)
	}
	name := ifaceName + "." + cc.Method.Name()
	// statically known dynamic type: dispatch to the concrete method
	if iv, ok := recv.(IfaceV); ok {
		if m := x.L.Prog.LookupMethod(iv.Dyn, cc.Method.Pkg(), cc.Method.Name()); m != nil {
			if _, isIntr := intrinsics[fnName(m)]; isIntr || (inRepo(m) && m.Blocks != nil) {
				return x.staticCall(st, fr, m, append([]Value{iv.V}, args...), nil, cc, instr)
			}
		}
		recv = iv.V
	}
	c := &CallCtx{x: x, st: st, fr: fr, instr: instr, cc: cc, name: name, args: append([]Value{recv}, args...)}
	if h, ok := intrinsics[name]; ok {
		x.assumed[name] = true
		return h(c)
	}
	// interface implemented by a repository type: use that implementation's contract
	if ct, fn := x.repoImplContract(lastSeg(ifaceName), cc.Method.Name()); ct != nil && fn != nil && fn != x.top {
		cc2 := &CallCtx{x: x, st: st, fr: fr, instr: instr, cc: cc, name: ct.Key(), args: c.args, fn: fn}
		return x.applyContract(cc2, ct)
	}
	// short name fallback: Interface.Method without package
	short := lastSeg(ifaceName) + "." + cc.Method.Name()
	if h, ok := intrinsics[short]; ok {
		x.assumed[short] = true
		c.name = short
		return h(c)
	}
	if cc.Method.Name() == "Error" && isErrorType(cc.Value.Type()) {
		tv := x.asTV(st, recv)
		f := x.enc.DeclFun("errmsg", []string{"Int"}, "Bytes")
		return c.ret(TV{T: app(f, tv.T), Ty: types.Typ[types.String]})
	}
	return x.unknownCall(c)
}

func (x *Exec) builtin(st *State, fr *Frame, name string, cc *ssa.CallCommon, args []Value, instr ssa.Instruction) []Outcome {
	e := x.enc
	ret := func(v Value) []Outcome { return []Outcome{{st: st, vals: []Value{v}}} }
	switch name {
	case "len":
		tv := x.asTV(st, args[0])
		s := e.Sort(tv.Ty)
		switch {
		case s == "Bytes":
			if a, ok := tv.Ty.Underlying().(*types.Array); ok {
				return ret(TV{T: intLit(a.Len()), Ty: types.Typ[types.Int]})
			}
			return ret(TV{T: app("blen", tv.T), Ty: types.Typ[types.Int]})
		case strings.HasPrefix(s, "(GSeq"):
			return ret(TV{T: seqLen(tv.T), Ty: types.Typ[types.Int]})
		case strings.HasPrefix(s, "(Array"):
			// len of a Go map: ghost cardinality
			f := e.DeclFun("card."+sanitize(s), []string{s}, "Int")
			st.Assume(app(">=", app(f, tv.T), "0"))
			return ret(TV{T: app(f, tv.T), Ty: types.Typ[types.Int]})
		}
	case "cap":
		tv := x.asTV(st, args[0])
		if tv.M != nil && tv.M.Cap != "" {
			return ret(TV{T: tv.M.Cap, Ty: types.Typ[types.Int]})
		}
		return ret(x.freshTV("cap", types.Typ[types.Int], st))
	case "append":
		return x.appendOp(st, fr, cc, args, instr)
	case "copy":
		if out, ok := x.copySeq(st, fr, cc, args); ok {
			return out
		}
		return x.copyOp(st, fr, cc, args, instr)
	case "delete":
		k := term(x.asTV(st, args[1]))
		mt := cc.Args[0].Type().Underlying().(*types.Map)
		x.mapUpdate(st, args[0], k, fmt.Sprintf("(as None (Opt %s))", e.Sort(mt.Elem())))
		return []Outcome{{st: st}}
	case "recover":
		it := types.NewInterfaceType(nil, nil)
		if st.recovering {
			st.recovering = false
			c := e.FreshConst("recovered", "Iface")
			st.Assume(not(eq(c, "iface_nil")))
			return ret(TV{T: c, Ty: it})
		}
		return ret(TV{T: "iface_nil", Ty: it})
	case "ssa:wrapnilchk":
		return ret(args[0])
	case "min", "max":
		a, b := x.asTV(st, args[0]), x.asTV(st, args[1])
		op := "<="
		if name == "max" {
			op = ">="
		}
		return ret(TV{T: ite(app(op, a.T, b.T), a.T, b.T), Ty: a.Ty})
	}
	x.fail("unsupported builtin %s", name)
	return nil
}

func (x *Exec) appendOp(st *State, fr *Frame, cc *ssa.CallCommon, args []Value, instr ssa.Instruction) []Outcome {
	e := x.enc
	if l, ok := args[0].(ListV); ok {
		nl := ListV{Elems: append([]Value(nil), l.Elems...)}
		if l2, ok := args[1].(ListV); ok {
			nl.Elems = append(nl.Elems, l2.Elems...)
		} else {
			nl.Elems = append(nl.Elems, args[1])
		}
		return []Outcome{{st: st, vals: []Value{nl}}}
	}
	a := x.asTV(st, args[0])
	if a.Ty == nil {
		a.Ty = cc.Args[0].Type()
	}
	s := e.Sort(cc.Args[0].Type())
	if s == "Bytes" {
		b := x.asTV(st, args[1])
		return []Outcome{{st: st, vals: []Value{x.byteAppend(st, fr, a, b, cc.Args[0].Type(), instr)}}}
	}
	if a.Shrunk {
		// append(s[:k], ...) writes into the backing array of s in place: every other holder of that array (an earlier
		// copy of the slice header, e.g. one stored in a result) sees the elements change. Non-byte slices are values here.
		x.fail("append to a re-sliced slice (s[:k]) reuses the backing array other holders may still read: outside the value model of non-byte slices")
	}
	// append(s, elems...) where elems is a slice value built from a varargs array
	b := x.asTV(st, args[1])
	blen := seqLen(b.T)
	alen := seqLen(a.T)
	arr := seqArr(a.T)
	if isNilConst(a) || strings.HasPrefix(a.T, "(as None") {
		alen = "0"
	}
	if isNumeral(blen) {
		var n int
		fmt.Sscan(blen, &n)
		for i := 0; i < n; i++ {
			el := simpSelect(app("gseq.arr", b.T), fmt.Sprint(i))
			idx := alen
			if i > 0 {
				idx = simpAdd(alen, i)
			}
			arr = app("store", arr, idx, el)
		}
		return []Outcome{{st: st, vals: []Value{TV{T: app("mkseq", arr, simpAdd(alen, n)), Ty: cc.Args[0].Type()}}}}
	}
	// symbolic-length append: result is a fresh sequence characterised by a quantified fact
	r := x.freshTV("appended", cc.Args[0].Type(), st)
	st.Assume(eq(app("gseq.len", r.T), app("+", alen, blen)))
	st.Assume(fmt.Sprintf("(forall ((i Int)) (! (=> (and (>= i 0) (< i %s)) (= (select (gseq.arr %s) i) (select %s i))) :pattern ((select (gseq.arr %s) i))))", alen, r.T, arr, r.T))
	st.Assume(fmt.Sprintf("(forall ((i Int)) (! (=> (and (>= i 0) (< i %s)) (= (select (gseq.arr %s) (+ %s i)) (select (gseq.arr %s) i))) :pattern ((select (gseq.arr %s) i))))", blen, r.T, alen, b.T, b.T))
	return []Outcome{{st: st, vals: []Value{r}}}
}

func simpAdd(t string, n int) string {
	if n == 0 {
		return t
	}
	if isNumeral(t) {
		var k int
		fmt.Sscan(t, &k)
		return fmt.Sprint(k + n)
	}
	return app("+", t, fmt.Sprint(n))
}

// ---------------------------------------------------------------------------------------
// ghost store

func (x *Exec) store(st *State, h int) *Store {
	s, ok := st.stores[h]
	if !ok {
		s = &Store{Parent: -1, G: map[string]string{}}
		st.stores[h] = s
	}
	return s
}

func (x *Exec) ghostInit(name, sort string) string {
	c := sanitize(name) + "@0"
	c = "|" + c + "|"
	x.enc.DeclConst(c, sort)
	x.ghostFacts(name, c)
	return c
}

// freshGhost: an unknown new value of a ghost cell, with the cell's global assumptions.
func (x *Exec) freshGhost(name, tag, sort string) string {
	c := x.enc.FreshConst(name+tag, sort)
	x.ghostFacts(name, c)
	return c
}

// ghostFacts: assumptions that hold for every value of a ghost cell (listed in the evidence).
func (x *Exec) ghostFacts(name, c string) {
	if gi, ok := x.ghostTy[name]; ok && !gi.Arr && !gi.Opt && gi.Sort == "Int" {
		// collections.Sequence: a uint64 counter (A-CTR: far below 2^64)
		x.enc.Axiom(and(app(">=", c, "0"), app("<", c, two63)))
		x.enc.usedAssum["A-CTR: sequence counters stay below 2^63"] = true
	}
	switch name {
	case "bank.bal":
		// A-BANK: account balances are never negative
		x.enc.Axiom(fmt.Sprintf("(forall ((k (Pair Bytes Bytes))) (! (>= (select %s k) 0) :pattern ((select %s k))))", c, c))
		x.enc.usedAssum["A-BANK: account balances are never negative"] = true
	}
}

func (x *Exec) ghostGet(st *State, h int, name, sort string, gi ghostInfo) string {
	if _, ok := x.ghostTy[name]; !ok {
		gi.Sort = sort
		x.ghostTy[name] = gi
	}
	if h < 0 {
		h = 0
	}
	s := x.store(st, h)
	if t, ok := s.G[name]; ok {
		return t
	}
	var t string
	if s.Parent >= 0 && !s.Havocked {
		// branched store: an untouched cell has the parent's value
		t = x.ghostGet(st, s.Parent, name, sort, gi)
		s.G[name] = t
		return t
	}
	if s.Epoch == 0 {
		t = x.ghostInit(name, sort)
	} else {
		t = x.freshGhost(name, "@h", sort)
	}
	s.G[name] = t
	return t
}

func (x *Exec) ghostSet(st *State, h int, name, t string) {
	if h < 0 {
		h = 0
	}
	x.store(st, h).G[name] = t
}

// havocGhost gives fresh values to the named ghost cells in every store handle.
func (x *Exec) havocGhost(st *State, names map[string]bool, all bool) {
	for _, s := range st.stores {
		if names["$events"] {
			// the havocked code may emit events: the event list of every handle is unknown afterwards
			s.EvOpaque = true
		}
		if all {
			s.G = map[string]string{}
			s.Epoch = x.newEpoch()
			s.Havocked = true
			continue
		}
		for n := range names {
			gi, ok := x.ghostTy[n]
			if !ok {
				continue
			}
			s.G[n] = x.freshGhost(n, "@h", gi.Sort)
		}
	}
}

func (x *Exec) newHandle(st *State, parent int) int {
	x.nextH++
	h := x.nextH
	p := x.store(st, parent)
	c := &Store{Parent: parent, G: map[string]string{}, Epoch: p.Epoch, Havocked: false}
	for k, v := range p.G {
		c.G[k] = v
	}
	st.stores[h] = c
	return h
}

func (x *Exec) commit(st *State, c CommitV) {
	child := x.store(st, c.Child)
	parent := x.store(st, c.Parent)
	if child.Havocked {
		// everything not materialised in the child is unknown
		parent.G = map[string]string{}
		parent.Epoch = x.newEpoch()
		parent.Havocked = true
	}
	for k, v := range child.G {
		parent.G[k] = v
	}
	parent.Events = append(parent.Events, child.Events...)
	parent.EvOpaque = parent.EvOpaque || child.EvOpaque
	st.trace = append(st.trace, fmt.Sprintf("commit %d->%d", c.Child, c.Parent))
}

func handleOf(v Value) int {
	switch c := v.(type) {
	case CtxV:
		if c.H < 0 {
			return 0
		}
		return c.H
	case IfaceV:
		return handleOf(c.V)
	}
	return 0
}

// collection descriptor from an object value
type collDesc struct {
	name  string
	kind  string // Map, Item, Sequence
	keyTy types.Type
	valTy types.Type
	sort  string
	gi    ghostInfo
}

func (x *Exec) coll(v Value) (collDesc, bool) {
	o, ok := v.(ObjV)
	if !ok {
		if iv, ok2 := v.(IfaceV); ok2 {
			return x.coll(iv.V)
		}
		return collDesc{}, false
	}
	t := types.Unalias(deref(o.Ty))
	n, ok := t.(*types.Named)
	if !ok {
		return collDesc{}, false
	}
	d := collDesc{name: lastSeg(o.Path), kind: n.Obj().Name()}
	ta := n.TypeArgs()
	e := x.enc
	if n.Obj().Pkg() == nil || n.Obj().Pkg().Path() != "cosmossdk.io/collections" {
		// e.g. a sync.Map field: not a store collection
		return d, false
	}
	switch d.kind {
	case "Map":
		if ta.Len() < 2 {
			return d, false
		}
		d.keyTy, d.valTy = ta.At(0), ta.At(1)
		d.sort = fmt.Sprintf("(Array %s (Opt %s))", e.Sort(d.keyTy), e.Sort(d.valTy))
		d.gi = ghostInfo{ValTy: d.valTy, KeyTy: d.keyTy, Opt: true, Arr: true}
	case "Item":
		if ta.Len() < 1 {
			return d, false
		}
		d.valTy = ta.At(0)
		d.sort = fmt.Sprintf("(Opt %s)", e.Sort(d.valTy))
		d.gi = ghostInfo{ValTy: d.valTy, Opt: true}
	case "Sequence":
		d.valTy = types.Typ[types.Uint64]
		d.sort = "Int"
		d.gi = ghostInfo{ValTy: d.valTy}
	default:
		return d, false
	}
	return d, true
}

// ---------------------------------------------------------------------------------------
// modular use of a repository callee's contract

func (x *Exec) applyContract(c *CallCtx, ct *Contract) []Outcome {
	fn := c.fn
	st := c.st
	x.modular[ct.Key()] = true
	names := map[string]Value{}
	for i, p := range fn.Params {
		names[p.Name()] = c.args[i]
	}
	pre := st.Clone()
	env := &cenv{x: x, st: st, old: pre, names: names, oldNames: names, pkg: fn.Pkg}
	bound := map[string]SV{}
	for _, cl := range ct.Of("let") {
		sv, err := EvalSpec(cl.node, env, x.sigs, bound)
		if err != nil {
			x.fail("contract %s let %s: %v", ct.Key(), cl.Name, err)
			return nil
		}
		bound[cl.Name] = sv
	}
	// preconditions are obligations at the call site
	for _, cl := range ct.Of("requires") {
		sv, err := EvalSpec(cl.node, env, x.sigs, bound)
		if err != nil {
			x.fail("contract %s requires: %v", ct.Key(), err)
			return nil
		}
		x.addObl("call.pre", fn.Name()+"."+cl.Tag+"@"+x.pos(c.instr.Pos()), cl.Text, st, sv.T, cl.Props)
		st.Assume(sv.T)
	}
	// definitional / environmental assumptions of the callee hold at the call site as well (not obligations)
	for _, cl := range ct.Of("assumes") {
		sv, err := EvalSpec(cl.node, env, x.sigs, bound)
		if err != nil {
			x.fail("contract %s assumes: %v", ct.Key(), err)
			return nil
		}
		st.Assume(sv.T)
		x.assumed["assumption of "+ct.Func+": "+cl.Text] = true
	}
	// havoc assigned ghost state
	assigned := map[string]bool{}
	for _, cl := range ct.Of("assigns") {
		for _, n := range cl.nodes {
			x.havocAssign(st, pre, env, bound, n, assigned)
		}
	}
	// results
	sig := fn.Signature
	var vals []Value
	results := map[string]Value{}
	for i := 0; i < sig.Results().Len(); i++ {
		rv := sig.Results().At(i)
		var v Value
		if isObjectType(rv.Type()) {
			v = ObjV{Path: "ret_" + fn.Name(), Ty: rv.Type()}
		} else if _, isMap := rv.Type().Underlying().(*types.Map); isMap {
			// a Go map result is a reference: back it with a cell so the caller can update it
			tv := x.freshTV("ret_"+fn.Name(), rv.Type(), st)
			v = MapRef{Cell: x.newCell(st, tv, rv.Type()), Ty: rv.Type()}
		} else if pt, ok := rv.Type().Underlying().(*types.Pointer); ok && !strings.HasPrefix(x.enc.Sort(rv.Type()), "(Opt") {
			_ = pt
			v = x.freshTV("ret_"+fn.Name(), rv.Type(), st)
		} else {
			v = x.freshTV("ret_"+fn.Name(), rv.Type(), st)
		}
		vals = append(vals, v)
		if rv.Name() != "" && rv.Name() != "_" {
			results[rv.Name()] = v
		}
		results[fmt.Sprintf("ret%d", i)] = v
		if isErrorType(rv.Type()) && i == sig.Results().Len()-1 {
			results["err"] = v
		}
	}
	if len(vals) > 0 {
		results["r"] = vals[0]
	}
	env.results = results
	st.calls = append(st.calls, CallRec{Name: ct.Func, Args: append([]Value(nil), c.args...), Rets: append([]Value(nil), vals...), Pre: pre})
	if ct.Func == "FinalizeTokenDeposit" {
		st.depositCalls++
		if ev, ok := results["err"]; ok {
			st.depositErrs = append(st.depositErrs, term(ev))
		}
	}
	for _, cl := range ct.Of("ensures") {
		if strings.Contains(cl.Text, "$gasChargedOuter") || strings.Contains(cl.Text, "$at(") || strings.Contains(cl.Text, "$called(") || strings.Contains(cl.Text, "$arg(") || strings.Contains(cl.Text, "$ret(") ||
			strings.Contains(cl.Text, "$hook") || strings.Contains(cl.Text, "$nextCalled") || strings.Contains(cl.Text, "$errFromDeposit") || strings.Contains(cl.Text, "$depositCalls") {
			// clauses about the callee body's own call structure are checked when the callee is verified;
			// they say nothing a caller could use
			continue
		}
		if mentionsLoopGhost(ct, cl.Text) {
			// history sequences of the callee's loops are not visible to a caller
			continue
		}
		sv, err := EvalSpec(cl.node, env, x.sigs, bound)
		if err != nil {
			x.fail("contract %s ensures %s: %v", ct.Key(), cl.Tag, err)
			return nil
		}
		st.Assume(sv.T)
	}
	outs := []Outcome{{st: st, vals: vals}}
	// events
	for _, cl := range ct.Of("emits") {
		guard, evs, err := x.evalEmits(cl, env, bound)
		if err != nil {
			x.fail("contract %s emits: %v", ct.Key(), err)
			return nil
		}
		var next []Outcome
		for _, o := range outs {
			if guard == "true" {
				s := x.store(o.st, handleOf(c.args[ctxIndex(fn)]))
				s.Events = append(s.Events, evs...)
				next = append(next, o)
				continue
			}
			a := o.st.Clone()
			a.Assume(guard)
			sa := x.store(a, handleOf(c.args[ctxIndex(fn)]))
			sa.Events = append(sa.Events, evs...)
			b := o.st
			b.Assume(not(guard))
			next = append(next, Outcome{st: a, vals: o.vals}, Outcome{st: b, vals: o.vals})
		}
		outs = next
	}
	return outs
}

func ctxIndex(fn *ssa.Function) int {
	for i, p := range fn.Params {
		if isCtxType(p.Type()) {
			return i
		}
	}
	return 0
}

// havocAssign gives a fresh value to the ghost target named by an assigns item.
func (x *Exec) havocAssign(st, pre *State, env *cenv, bound map[string]SV, n *Node, assigned map[string]bool) {
	name := dottedName(n)
	var keys []*Node
	if n.Kind == "index" {
		name = dottedName(n.Args[0])
		keys = []*Node{n.Args[1]}
	}
	if name == "events" || name == "" {
		if name == "events" {
			x.store(st, 0).EvOpaque = true
		}
		return
	}
	if strings.HasPrefix(name, "*") {
		return
	}
	gi, ok := x.ghostTy[name]
	if !ok {
		// unknown ghost: may be a pointer parameter target (*req)
		x.warn("assigns target %s is not a known ghost cell", name)
		return
	}
	cur := x.ghostGet(st, 0, name, gi.Sort, gi)
	if len(keys) == 0 || !gi.Arr {
		x.ghostSet(st, 0, name, x.freshGhost(name, "@c", gi.Sort))
		return
	}
	k := keys[0]
	if k.Kind == "tuple" && len(k.Args) == 2 && k.Args[1].Kind == "ident" && k.Args[1].Name == "$any" {
		// prefix havoc: all keys whose first component equals the prefix
		pv, err := EvalSpec(k.Args[0], env.pre(), x.sigs, bound)
		if err != nil {
			x.fail("assigns key: %v", err)
			return
		}
		nw := x.freshGhost(name, "@c", gi.Sort)
		ks := x.enc.Sort(gi.KeyTy)
		st.Assume(fmt.Sprintf("(forall ((k %s)) (! (=> (not (= (fst k) %s)) (= (select %s k) (select %s k))) :pattern ((select %s k))))", ks, pv.T, nw, cur, nw))
		x.ghostSet(st, 0, name, nw)
		return
	}
	if k.Kind == "ident" && k.Name == "$any" {
		x.ghostSet(st, 0, name, x.freshGhost(name, "@c", gi.Sort))
		return
	}
	kv, err := EvalSpec(k, env.pre(), x.sigs, bound)
	if err != nil {
		x.fail("assigns key: %v", err)
		return
	}
	vs := gi.Sort[strings.Index(gi.Sort, " ")+1:]
	// element sort: last component of (Array K V)
	parts := splitTop(gi.Sort[1 : len(gi.Sort)-1])
	vs = parts[2]
	fv := x.enc.FreshConst(name+"@e", vs)
	if name == "bank.bal" {
		st.Assume(app(">=", fv, "0"))
	}
	x.ghostSet(st, 0, name, app("store", x.ghostGet(st, 0, name, gi.Sort, gi), kv.T, fv))
}

// ---------------------------------------------------------------------------------------
// spec environment over an execution state

type cenv struct {
	prevSt    *State // loop step clauses: state and names at the header of the current iteration
	prevNames map[string]Value
	x        *Exec
	st       *State
	old      *State
	names    map[string]Value
	oldNames map[string]Value
	results  map[string]Value
	pkg      *ssa.Package
	h        int
}

func (c *cenv) Enc() *Enc { return c.x.enc }

func (c *cenv) pre() *cenv {
	n := *c
	n.st = c.old
	n.names = c.oldNames
	n.results = nil
	return &n
}

func (c *cenv) Lookup(name string, old bool) (SV, bool) {
	x := c.x
	st := c.st
	names := c.names
	if old {
		st = c.old
		names = c.oldNames
	}
	if !old && c.results != nil {
		if v, ok := c.results[name]; ok {
			return x.toSV(st, v)
		}
	}
	if strings.HasPrefix(name, "g.") {
		// explicit ghost reference (a module state cell that a local variable shadows)
		if gi, ok := x.ghostTy[name[2:]]; ok {
			t := x.ghostGet(st, c.h, name[2:], gi.Sort, gi)
			return SV{T: t, Ty: gi.ValTy, Opt: gi.Opt, Arr: gi.Arr, Sort: gi.Sort}, true
		}
		return SV{}, false
	}
	parts := strings.Split(name, ".")
	if v, ok := names[parts[0]]; ok {
		cur := v
		for _, f := range parts[1:] {
			nv, ok := x.fieldByName(st, cur, f)
			if !ok {
				return SV{}, false
			}
			cur = nv
		}
		return x.toSV(st, cur)
	}
	if len(parts) > 1 {
		if _, ok := x.ghostTy[name]; !ok {
			return SV{}, false
		}
	}
	if gi, ok := x.ghostTy[name]; ok {
		t := x.ghostGet(st, c.h, name, gi.Sort, gi)
		return SV{T: t, Ty: gi.ValTy, Opt: gi.Opt, Arr: gi.Arr, Sort: gi.Sort}, true
	}
	if strings.HasPrefix(name, "$agg") {
		if sv, ok := c.aggPseudo(name); ok {
			return sv, true
		}
	}
	switch name {
	case "$hookFailed":
		if st.hookFailed {
			return SV{T: "true", Sort: "Bool"}, true
		}
		return SV{T: "false", Sort: "Bool"}, true
	case "$gasChargedOuter":
		// total amount charged to the transaction's (outer) gas meter on this path
		sum := "0"
		for _, gc := range st.gasCharged {
			if gc[0] == "0" {
				sum = app("+", sum, gc[1])
			}
		}
		return SV{T: sum, Sort: "Int"}, true
	case "$depositCalls":
		return SV{T: fmt.Sprint(st.depositCalls), Sort: "Int"}, true
	case "$errFromDeposit":
		if c.results != nil {
			if ev, ok := c.results["err"]; ok {
				for _, d := range st.depositErrs {
					if d == term(ev) {
						return SV{T: "true", Sort: "Bool"}, true
					}
				}
			}
		}
		return SV{T: "false", Sort: "Bool"}, true
	case "$isCheckTx":
		x.enc.DeclConst("ctx.isCheckTx", "Bool")
		return SV{T: "ctx.isCheckTx", Sort: "Bool"}, true
	case "$isReCheckTx":
		x.enc.DeclConst("ctx.isReCheckTx", "Bool")
		return SV{T: "ctx.isReCheckTx", Sort: "Bool"}, true
	case "$nodeMinGasPrices":
		if sp := x.L.Prog.ImportedPackage("github.com/cosmos/cosmos-sdk/types"); sp != nil && sp.Type("DecCoins") != nil {
			ty := sp.Type("DecCoins").Type()
			n := x.enc.DeclConst("ctx.minGasPrices", x.enc.Sort(ty))
			return SV{T: n, Ty: ty}, true
		}
		return SV{}, false
	case "$nextCalled":
		return SV{T: fmt.Sprint(st.nextCalled), Sort: "Int"}, true
	case "$hookCalls":
		return SV{T: fmt.Sprint(len(st.hookCalls)), Sort: "Int"}, true
	case "$hookCount":
		if st.hookCount == "" {
			return SV{T: "0", Sort: "Int"}, true
		}
		return SV{T: st.hookCount, Sort: "Int"}, true
	case "$hookOuter":
		// every bridge-hook notification of this path was sent on the handler's own context (not on a branch that may be dropped)
		for _, hc := range st.hookCalls {
			if hc.H != 0 {
				return SV{T: "false", Sort: "Bool"}, true
			}
		}
		return SV{T: "true", Sort: "Bool"}, true
	case "$hookName":
		if n := len(st.hookCalls); n > 0 {
			return SV{T: x.enc.Lit(st.hookCalls[n-1].Name), Sort: "Bytes"}, true
		}
		return SV{T: x.enc.Lit(""), Sort: "Bytes"}, true
	case "$hookCfg":
		if n := len(st.hookCalls); n > 0 {
			return SV{T: st.hookCalls[n-1].Cfg.T, Ty: st.hookCalls[n-1].Cfg.Ty}, true
		}
		if tp := x.L.SSA[repoPrefix+"/x/ophost/types"]; tp != nil && tp.Type("BridgeConfig") != nil {
			return x.toSV(st, x.freshTV("nohook_cfg", tp.Type("BridgeConfig").Type(), nil))
		}
		return SV{}, false
	case "$hookBridge":
		if n := len(st.hookCalls); n > 0 {
			return SV{T: st.hookCalls[n-1].Bridge, Sort: "Int"}, true
		}
		return SV{T: "(- 1)", Sort: "Int"}, true
	case "$evOpaque":
		if x.store(st, 0).EvOpaque {
			return SV{T: "true", Sort: "Bool"}, true
		}
		return SV{T: "false", Sort: "Bool"}, true
	case "now":
		return SV{T: x.blockTime(), Sort: "Int"}, true
	case "height":
		return SV{T: x.blockHeight(), Sort: "Int"}, true
	}
	// a package-level variable of the function's package (e.g. a generated enum table)
	if c.pkg != nil && !strings.Contains(name, ".") {
		if g, ok := c.pkg.Members[name].(*ssa.Global); ok {
			return x.toSV(st, x.loadGlobal(st, g))
		}
	}
	// a local variable that is not (yet) defined on this path: unconstrained
	if t, ok := x.localTypes[name]; ok && !old {
		return x.toSV(st, x.freshTV("undef_"+name, t, nil))
	}
	// package-level sentinel error or constant
	if c.pkg != nil {
		if m, ok := c.pkg.Members[name]; ok {
			if g, ok := m.(*ssa.Global); ok {
				return x.toSV(st, x.loadGlobal(st, g))
			}
			if k, ok := m.(*ssa.NamedConst); ok {
				return x.toSV(st, x.constVal(k.Value))
			}
		}
		for _, imp := range c.pkg.Pkg.Imports() {
			if ip := x.L.Prog.Package(imp); ip != nil && strings.HasPrefix(imp.Path(), repoPrefix) {
				if m, ok := ip.Members[name]; ok {
					if g, ok := m.(*ssa.Global); ok {
						return x.toSV(st, x.loadGlobal(st, g))
					}
					if k, ok := m.(*ssa.NamedConst); ok {
						return x.toSV(st, x.constVal(k.Value))
					}
				}
			}
		}
	}
	return SV{}, false
}

func (x *Exec) fieldByName(st *State, v Value, f string) (Value, bool) {
	switch b := v.(type) {
	case PtrV:
		return x.fieldByName(st, x.load(st, b, nil), f)
	case ObjV:
		stt, ok := deref(b.Ty).Underlying().(*types.Struct)
		if !ok {
			return nil, false
		}
		for i := 0; i < stt.NumFields(); i++ {
			if stt.Field(i).Name() == f {
				return x.objField(st, b, i), true
			}
		}
		for i := 0; i < stt.NumFields(); i++ {
			if stt.Field(i).Embedded() {
				if r, ok := x.fieldByName(st, x.objField(st, b, i), f); ok {
					return r, true
				}
			}
		}
	case TV:
		ty := b.Ty
		t := b.T
		if pt, ok := ty.Underlying().(*types.Pointer); ok {
			ty = pt.Elem()
			t = app("val", t)
		}
		stt, ok := ty.Underlying().(*types.Struct)
		if !ok {
			return nil, false
		}
		for i := 0; i < stt.NumFields(); i++ {
			if stt.Field(i).Name() == f {
				return TV{T: x.enc.Sel(ty, i, t), Ty: stt.Field(i).Type()}, true
			}
		}
		for i := 0; i < stt.NumFields(); i++ {
			if stt.Field(i).Embedded() {
				if r, ok := x.fieldByName(st, TV{T: x.enc.Sel(ty, i, t), Ty: stt.Field(i).Type()}, f); ok {
					return r, true
				}
			}
		}
	}
	return nil, false
}

func (x *Exec) toSV(st *State, v Value) (SV, bool) {
	switch t := v.(type) {
	case TV:
		return SV{T: t.T, Ty: t.Ty}, true
	case PtrV:
		cur := x.load(st, t, nil)
		if tv, ok := cur.(TV); ok {
			return SV{T: tv.T, Ty: tv.Ty}, true
		}
		switch cur.(type) {
		case SliceRef, MapRef, ByteView, IfaceV:
			return x.toSV(st, cur)
		}
	case SliceRef, MapRef, ByteView:
		tv := x.asTV(st, t)
		return SV{T: tv.T, Ty: tv.Ty}, true
	case IfaceV:
		return x.toSV(st, t.V)
	}
	return SV{}, false
}

func (x *Exec) blockTime() string {
	x.enc.DeclConst("ctx.now", "Int")
	return "ctx.now"
}
func (x *Exec) blockHeight() string {
	x.enc.DeclConst("ctx.height", "Int")
	x.enc.Axiom("(and (>= ctx.height (- " + two63 + ")) (< ctx.height " + two63 + "))")
	return "ctx.height"
}

// evalEmits evaluates an emits clause: optional "guard ==> ev(...), ev(...)".
func (x *Exec) evalEmits(cl *Clause, env SpecEnv, bound map[string]SV) (string, []Event, error) {
	guard := "true"
	var evs []Event
	nodes := cl.nodes
	if len(nodes) > 0 && nodes[0].Kind == "binary" && nodes[0].Op == "==>" {
		g, err := EvalSpec(nodes[0].Args[0], env, x.sigs, bound)
		if err != nil {
			return "", nil, err
		}
		guard = g.T
		nodes = append([]*Node{nodes[0].Args[1]}, nodes[1:]...)
	}
	for _, n := range nodes {
		if n.Kind == "ident" && n.Name == "nothing" {
			continue
		}
		if n.Kind == "call" && n.Name == "none" && len(n.Args) == 1 {
			sv, err := EvalSpec(n.Args[0], env, x.sigs, bound)
			if err != nil {
				return "", nil, err
			}
			evs = append(evs, Event{Ty: sv.T, None: true})
			continue
		}
		if n.Kind != "call" || n.Name != "ev" || len(n.Args)%2 != 1 {
			return "", nil, fmt.Errorf("emits expects ev(type, k, v, ...)")
		}
		var ts []string
		for _, a := range n.Args {
			if a.Kind == "ident" && a.Name == "_" {
				ts = append(ts, "")
				continue
			}
			sv, err := EvalSpec(a, env, x.sigs, bound)
			if err != nil {
				return "", nil, err
			}
			ts = append(ts, sv.T)
		}
		ev := Event{Ty: ts[0]}
		for i := 1; i+1 < len(ts); i += 2 {
			ev.KV = append(ev.KV, [2]string{ts[i], ts[i+1]})
		}
		evs = append(evs, ev)
	}
	return guard, evs, nil
}

// TypedUF: uninterpreted spec functions whose sorts come from Go types of dependencies.
func (c *cenv) TypedUF(name string) ([]types.Type, types.Type, bool) {
	sp := c.x.L.Prog.ImportedPackage("github.com/cosmos/cosmos-sdk/types")
	if sp == nil || sp.Type("DecCoins") == nil || sp.Type("Coins") == nil {
		return nil, nil, false
	}
	dec, coins := sp.Type("DecCoins").Type(), sp.Type("Coins").Type()
	switch name {
	case "combinedMin":
		return []types.Type{dec, dec}, dec, true
	case "requiredFees":
		return []types.Type{types.Typ[types.Uint64], dec}, coins, true
	case "coinsValid":
		return []types.Type{coins}, types.Typ[types.Bool], true
	case "coinsIsAnyGTE":
		return []types.Type{coins, coins}, types.Typ[types.Bool], true
	case "decCoinsIsZero", "decCoinsValid":
		return []types.Type{dec}, types.Typ[types.Bool], true
	case "txFee":
		return []types.Type{types.NewInterfaceType(nil, nil)}, coins, true
	case "txGas":
		return []types.Type{types.NewInterfaceType(nil, nil)}, types.Typ[types.Uint64], true
	case "bondedTokens", "cmtConsPublicKey", "pubKeyFromProto", "sigOK":
		stp := c.x.L.Prog.ImportedPackage("github.com/cosmos/cosmos-sdk/x/staking/types")
		cp := c.x.L.Prog.ImportedPackage("github.com/cometbft/cometbft/proto/tendermint/crypto")
		mp := c.x.L.Prog.ImportedPackage("cosmossdk.io/math")
		if stp == nil || cp == nil || mp == nil || stp.Type("Validator") == nil || cp.Type("PublicKey") == nil || mp.Type("Int") == nil {
			return nil, nil, false
		}
		val, pk, mint := stp.Type("Validator").Type(), cp.Type("PublicKey").Type(), mp.Type("Int").Type()
		iface := types.NewInterfaceType(nil, nil)
		bz := types.NewSlice(types.Typ[types.Uint8])
		switch name {
		case "bondedTokens":
			return []types.Type{val}, mint, true
		case "cmtConsPublicKey":
			return []types.Type{val}, pk, true
		case "pubKeyFromProto":
			return []types.Type{pk}, iface, true
		case "sigOK":
			return []types.Type{iface, bz, bz}, types.Typ[types.Bool], true
		}
	}
	for _, pre := range []string{"jsonStrictOK_", "jsonLenientOK_", "jsonStrict_", "jsonLenient_"} {
		if strings.HasPrefix(name, pre) {
			tag := strings.TrimPrefix(name, pre)
			for _, pk := range c.x.L.Prog.AllPackages() {
				if pk.Pkg == nil || !strings.HasPrefix(pk.Pkg.Path(), repoPrefix) {
					continue
				}
				if t := pk.Type(tag); t != nil {
					bz := types.NewSlice(types.Typ[types.Uint8])
					if strings.Contains(pre, "OK_") {
						return []types.Type{bz}, types.Typ[types.Bool], true
					}
					return []types.Type{bz}, t.Type(), true
				}
			}
		}
	}
	switch name {
	case "authzMsgs":
		ap := c.x.L.Prog.ImportedPackage("github.com/cosmos/cosmos-sdk/x/authz")
		if ap == nil || ap.Type("MsgExec") == nil {
			return nil, nil, false
		}
		return []types.Type{ap.Type("MsgExec").Type()}, types.NewSlice(types.NewInterfaceType(nil, nil)), true
	case "valsetValidators", "stakingConsAddr":
		tp := c.x.L.Prog.ImportedPackage("github.com/cometbft/cometbft/proto/tendermint/types")
		stp := c.x.L.Prog.ImportedPackage("github.com/cosmos/cosmos-sdk/x/staking/types")
		if tp == nil || stp == nil || tp.Type("ValidatorSet") == nil || tp.Type("Validator") == nil || stp.Type("Validator") == nil {
			return nil, nil, false
		}
		if name == "stakingConsAddr" {
			return []types.Type{stp.Type("Validator").Type()}, types.NewSlice(types.Typ[types.Uint8]), true
		}
		return []types.Type{tp.Type("ValidatorSet").Type()}, types.NewSlice(types.NewPointer(tp.Type("Validator").Type())), true
	case "tmPk", "cmtPubKey":
		cp := c.x.L.Prog.ImportedPackage("github.com/cometbft/cometbft/proto/tendermint/crypto")
		if cp == nil || cp.Type("PublicKey") == nil {
			return nil, nil, false
		}
		return []types.Type{types.NewInterfaceType(nil, nil)}, cp.Type("PublicKey").Type(), true
	case "totalBonded":
		stp := c.x.L.Prog.ImportedPackage("github.com/cosmos/cosmos-sdk/x/staking/types")
		mp := c.x.L.Prog.ImportedPackage("cosmossdk.io/math")
		if stp == nil || mp == nil {
			return nil, nil, false
		}
		return []types.Type{types.NewMap(types.NewSlice(types.Typ[types.Uint8]), stp.Type("Validator").Type())}, mp.Type("Int").Type(), true
	case "decodeVE":
		vp := c.x.L.Prog.ImportedPackage("github.com/skip-mev/connect/v2/abci/ve/types")
		if vp == nil || vp.Type("OracleVoteExtension") == nil {
			return nil, nil, false
		}
		return []types.Type{types.NewSlice(types.Typ[types.Uint8])}, vp.Type("OracleVoteExtension").Type(), true
	case "decodeExtCommit":
		ap := c.x.L.Prog.ImportedPackage("github.com/cometbft/cometbft/abci/types")
		if ap == nil || ap.Type("ExtendedCommitInfo") == nil {
			return nil, nil, false
		}
		return []types.Type{types.NewSlice(types.Typ[types.Uint8])}, ap.Type("ExtendedCommitInfo").Type(), true
	case "voteSum":
		// definitional helper of ValidateVoteExtensions' contract: partial sums of counted voting power
		return []types.Type{types.Typ[types.Int]}, types.Typ[types.Int64], true
	}
	return nil, nil, false
}

// Prev gives the environment at the loop header of the current iteration (loop step clauses).
func (c *cenv) Prev() (SpecEnv, bool) {
	if c.prevSt == nil {
		return c, false
	}
	n := *c
	n.st, n.names = c.prevSt, c.prevNames
	return &n, true
}

// AtCall gives the environment in which the last by-contract call of fn on this path was made ($at).
func (c *cenv) AtCall(fn string) (SpecEnv, bool) {
	for k := len(c.st.calls) - 1; k >= 0; k-- {
		if c.st.calls[k].Name == fn && c.st.calls[k].Pre != nil {
			n := *c
			n.st = c.st.calls[k].Pre
			return &n, true
		}
	}
	return c, false
}

func (c *cenv) HookCallList() []HookCall { return c.st.hookCalls }

// TypeByString resolves "pkg/path.Name" or "*pkg/path.Name" to the Go type (for unbox in specs).
func (c *cenv) TypeByString(s string) (types.Type, bool) {
	ptr := strings.HasPrefix(s, "*")
	s = strings.TrimPrefix(s, "*")
	i := strings.LastIndex(s, ".")
	if i < 0 {
		return nil, false
	}
	pkg := c.x.L.Prog.ImportedPackage(s[:i])
	if pkg == nil || pkg.Type(s[i+1:]) == nil {
		return nil, false
	}
	t := pkg.Type(s[i+1:]).Type()
	if ptr {
		return types.NewPointer(t), true
	}
	return t, true
}

func (c *cenv) LoopGhost(name string) (LGhost, bool) {
	if lg, ok := c.st.lghost[name]; ok {
		return lg, true
	}
	// a path that never entered the loop: the sequence is unconstrained
	if c.x.topC != nil {
		for _, cl := range c.x.topC.Of("loopghost") {
			if cl.Name == name {
				sym := fmt.Sprintf("lg!%s!0", name)
				c.x.enc.DeclFun(sym, []string{"Int"}, cl.Sort)
				return LGhost{Sym: sym, Sort: cl.Sort}, true
			}
		}
	}
	return LGhost{}, false
}

// CallInfo exposes the recorded by-contract calls of the current path to postconditions.
func (c *cenv) CallInfo(kind, fn string, i int) (SV, bool) {
	var last *CallRec
	n := 0
	for k := range c.st.calls {
		if c.st.calls[k].Name == fn {
			n++
			last = &c.st.calls[k]
		}
	}
	switch kind {
	case "$called":
		return SV{T: fmt.Sprint(n), Sort: "Int"}, true
	case "$arg":
		if last == nil {
			// no call on this path: an unconstrained value of the right type
			if ct, f := c.x.findByFunc(fn); ct != nil && f != nil && i < len(f.Params) {
				return c.x.toSV(c.st, c.x.freshTV("nocall", f.Params[i].Type(), nil))
			}
			return SV{}, false
		}
		if i < len(last.Args) {
			return c.x.toSV(c.st, last.Args[i])
		}
	case "$ret":
		if last == nil {
			if ct, f := c.x.findByFunc(fn); ct != nil && f != nil && i < f.Signature.Results().Len() {
				return c.x.toSV(c.st, c.x.freshTV("nocall", f.Signature.Results().At(i).Type(), nil))
			}
			return SV{}, false
		}
		if i < len(last.Rets) {
			return c.x.toSV(c.st, last.Rets[i])
		}
	}
	return SV{}, false
}

func (x *Exec) findByFunc(name string) (*Contract, *ssa.Function) {
	for _, k := range sortedKeys(x.db.ByKey) {
		if ct := x.db.ByKey[k]; ct.Func == name {
			return ct, x.L.FindFunc(ct)
		}
	}
	return nil, nil
}

func mentionsLoopGhost(ct *Contract, text string) bool {
	for _, g := range ct.Of("loopghost") {
		if strings.Contains(text, g.Name+"(") {
			return true
		}
	}
	return false
}

// copySeq: copy(dst, src) on non-byte slices held as values. The first min(len(dst), len(src)) elements of the destination
// become those of the source, its length does not change (copy never grows a slice). The destination must be a slice the
// engine can write back to: a variable (SliceRef) or a slice-typed field loaded from an addressable place.
func (x *Exec) copySeq(st *State, fr *Frame, cc *ssa.CallCommon, args []Value) ([]Outcome, bool) {
	e := x.enc
	dt, ok := cc.Args[0].Type().Underlying().(*types.Slice)
	if !ok || e.Sort(dt.Elem()) == "Int" && isByteElem(dt.Elem()) {
		return nil, false
	}
	if strings.HasPrefix(e.Sort(cc.Args[0].Type()), "Bytes") {
		return nil, false
	}
	var dst TV
	var target PtrV
	switch d := args[0].(type) {
	case SliceRef:
		cur, ok := st.cells[d.Cell].(TV)
		if !ok {
			return nil, false
		}
		dst, target = cur, PtrV{Cell: d.Cell}
	case TV:
		o, ok := fr.origin[cc.Args[0]]
		if !ok {
			x.fail("copy into a slice value whose storage the engine cannot address")
			return nil, true
		}
		if cur, ok := x.load(st, o, nil).(TV); !ok || cur.T != d.T {
			x.fail("copy into a slice value whose storage changed since it was loaded")
			return nil, true
		}
		dst, target = d, o
	default:
		return nil, false
	}
	src := x.asTV(st, args[1])
	es := e.Sort(dt.Elem())
	n := ite(app("<", seqLen(src.T), seqLen(dst.T)), seqLen(src.T), seqLen(dst.T))
	arr := e.FreshConst("copied", fmt.Sprintf("(Array Int %s)", es))
	st.Assume(fmt.Sprintf("(forall ((j Int)) (! (= (select %s j) (ite (and (<= 0 j) (< j %s)) (select %s j) (select %s j))) :pattern ((select %s j))))", arr, n, seqArr(src.T), seqArr(dst.T), arr))
	x.storeTo(st, target, TV{T: app("mkseq", arr, seqLen(dst.T)), Ty: dst.Ty})
	return []Outcome{{st: st, vals: []Value{TV{T: n, Ty: types.Typ[types.Int]}}}}, true
}

func isByteElem(t types.Type) bool {
	b, ok := t.Underlying().(*types.Basic)
	return ok && (b.Kind() == types.Uint8 || b.Kind() == types.Byte)
}
