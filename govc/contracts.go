package main

// Contract files: comment-only Go files (build tag verif) inside the repository packages.
// Every contract block is keyed by function (and loop ordinal).

import (
	"crypto/sha256"
	"fmt"
	"os"
	"path/filepath"
	"regexp"
	"strings"
)

type Clause struct {
	Kind  string // requires, ensures, assigns, invariant, emits, let, opt, modifies_cells
	Text  string
	Tag   string
	Props []string
	Loop  int
	Line  int
	Name  string // for let / loop ghost
	Sort  string // for loop ghost: SMT sort of the recorded values
	node  *Node
	nodes []*Node
}

type Contract struct {
	Pkg      string // package import path
	Recv     string // receiver type name without pointer, "" for functions
	Func     string
	Clauses  []*Clause
	File     string
	Line     int
	Text     string // raw text for hashing
	Opts     map[string]bool
	FuncLits map[int]bool
}

func (c *Contract) Key() string {
	if c.Recv != "" {
		return c.Pkg + ".(" + c.Recv + ")." + c.Func
	}
	return c.Pkg + "." + c.Func
}

func (c *Contract) Hash() string {
	h := sha256.Sum256([]byte(c.Text))
	return fmt.Sprintf("%x", h[:])
}

func (c *Contract) Of(kind string) []*Clause {
	var out []*Clause
	for _, cl := range c.Clauses {
		if cl.Kind == kind {
			out = append(out, cl)
		}
	}
	return out
}

type ContractDB struct {
	ByKey map[string]*Contract
	Files []string
}

var clauseKw = map[string]bool{"requires": true, "assumes": true, "ensures": true, "assigns": true, "loop": true, "emits": true, "emits_filtered": true, "let": true, "opt": true, "walk": true, "panics": true, "succeeds": true}
var propRe = regexp.MustCompile(`^C[0-9]{2,3}$`)

// LoadContracts parses all zz_verif_contracts.go files of the given package dirs.
func LoadContracts(pkgDirs map[string]string) (*ContractDB, error) {
	db := &ContractDB{ByKey: map[string]*Contract{}}
	for pkgPath, dir := range pkgDirs {
		files, _ := filepath.Glob(filepath.Join(dir, "zz_verif_contracts*.go"))
		for _, f := range files {
			data, err := os.ReadFile(f)
			if err != nil {
				return nil, err
			}
			db.Files = append(db.Files, f)
			if err := db.parseFile(pkgPath, f, string(data)); err != nil {
				return nil, err
			}
		}
	}
	return db, nil
}

func (db *ContractDB) parseFile(pkgPath, file, text string) error {
	var cur *Contract
	var last *Clause
	flush := func() {
		if cur != nil {
			db.ByKey[cur.Key()] = cur
		}
	}
	for i, raw := range strings.Split(text, "\n") {
		line := strings.TrimSpace(raw)
		if !strings.HasPrefix(line, "//@") {
			if line == "//" || line == "" {
				continue
			}
			continue
		}
		body := strings.TrimSpace(line[3:])
		if body == "" {
			continue
		}
		// strip trailing tag comment
		tag := ""
		if j := strings.LastIndex(body, " // "); j >= 0 {
			tag = strings.TrimSpace(body[j+4:])
			body = strings.TrimSpace(body[:j])
		}
		fields := strings.Fields(body)
		if fields[0] == "func" {
			flush()
			cur = &Contract{Pkg: pkgPath, File: file, Line: i + 1, Opts: map[string]bool{}}
			rest := strings.TrimSpace(body[4:])
			if strings.HasPrefix(rest, "(") {
				j := strings.Index(rest, ")")
				recv := strings.TrimSpace(rest[1:j])
				rf := strings.Fields(recv)
				recv = rf[len(rf)-1]
				cur.Recv = strings.TrimPrefix(recv, "*")
				rest = strings.TrimSpace(rest[j+1:])
			}
			cur.Func = strings.Fields(rest)[0]
			cur.Text = raw + "\n"
			last = nil
			continue
		}
		if cur == nil {
			return fmt.Errorf("%s:%d: clause outside func block", file, i+1)
		}
		cur.Text += raw + "\n"
		if !clauseKw[fields[0]] {
			// continuation
			if last == nil {
				return fmt.Errorf("%s:%d: continuation without clause", file, i+1)
			}
			last.Text += " " + body
			if tag != "" {
				last.setTag(tag)
			}
			continue
		}
		cl := &Clause{Kind: fields[0], Line: i + 1}
		rest := strings.TrimSpace(body[len(fields[0]):])
		switch fields[0] {
		case "walk":
			var k int
			if _, err := fmt.Sscanf(fields[1], "%d", &k); err != nil || len(fields) < 3 || fields[2] != "invariant" {
				return fmt.Errorf("%s:%d: expected 'walk <k> invariant'", file, i+1)
			}
			cl.Kind = "walkinv"
			cl.Loop = k
			idx := strings.Index(rest, "invariant")
			rest = strings.TrimSpace(rest[idx+len("invariant"):])
		case "loop":
			// loop <k> invariant <expr>
			var k int
			if _, err := fmt.Sscanf(fields[1], "%d", &k); err != nil || len(fields) < 3 || (fields[2] != "invariant" && fields[2] != "step" && fields[2] != "ghost") {
				return fmt.Errorf("%s:%d: expected 'loop <k> invariant', 'loop <k> step' or 'loop <k> ghost'", file, i+1)
			}
			if fields[2] == "ghost" {
				// loop <k> ghost <name> <sort> := <expr>: name(j) is the value of expr at the end of iteration j (history sequence)
				j := strings.Index(rest, ":=")
				if j < 0 || len(fields) < 6 {
					return fmt.Errorf("%s:%d: expected 'loop <k> ghost <name> <sort> := <expr>'", file, i+1)
				}
				cl.Kind = "loopghost"
				cl.Loop = k
				cl.Name = fields[3]
				hd := strings.TrimSpace(rest[:j])
				hd = strings.TrimSpace(hd[strings.Index(hd, fields[3])+len(fields[3]):])
				cl.Sort = qsort(strings.Trim(hd, "`"))
				rest = strings.TrimSpace(rest[j+2:])
				break
			}
			cl.Kind = "invariant"
			if fields[2] == "step" {
				// two-state relation of one iteration: prev(e) is e at the loop header of the iteration
				cl.Kind = "loopstep"
			}
			cl.Loop = k
			idx := strings.Index(rest, fields[2])
			rest = strings.TrimSpace(rest[idx+len(fields[2]):])
		case "let":
			j := strings.Index(rest, ":=")
			if j < 0 {
				return fmt.Errorf("%s:%d: let needs :=", file, i+1)
			}
			cl.Name = strings.TrimSpace(rest[:j])
			rest = strings.TrimSpace(rest[j+2:])
		case "opt":
			for _, o := range strings.Fields(rest) {
				cur.Opts[o] = true
			}
		}
		cl.Text = rest
		cl.setTag(tag)
		cur.Clauses = append(cur.Clauses, cl)
		last = cl
	}
	flush()
	return nil
}

func (cl *Clause) setTag(tag string) {
	if tag == "" {
		return
	}
	// "C05,C11: name" or "name"
	if j := strings.Index(tag, ":"); j >= 0 {
		ok := true
		var props []string
		for _, p := range strings.Split(tag[:j], ",") {
			p = strings.TrimSpace(p)
			if !propRe.MatchString(p) {
				ok = false
			}
			props = append(props, p)
		}
		if ok {
			cl.Props = props
			cl.Tag = strings.TrimSpace(tag[j+1:])
			// the name is the first word; anything after it is a remark for the reader
			if f := strings.Fields(cl.Tag); len(f) > 0 {
				cl.Tag = f[0]
			}
			return
		}
	}
	cl.Tag = tag
}

// Prepare parses all clause expressions.
func (c *Contract) Prepare() error {
	cnt := map[string]int{}
	for _, cl := range c.Clauses {
		var err error
		switch cl.Kind {
		case "requires", "assumes", "ensures", "invariant", "loopstep", "loopghost", "walkinv", "let", "panics", "succeeds":
			cl.node, err = ParseSpec(cl.Text)
		case "assigns":
			if strings.TrimSpace(cl.Text) == `\nothing` {
				cl.nodes = nil
			} else {
				cl.nodes, err = ParseSpecList(strings.ReplaceAll(cl.Text, "*", "$any"))
			}
		case "emits", "emits_filtered":
			cl.nodes, err = ParseSpecList(cl.Text)
		}
		if err != nil {
			return fmt.Errorf("%s:%d: %v", c.File, cl.Line, err)
		}
		if cl.Tag == "" {
			cnt[cl.Kind]++
			cl.Tag = fmt.Sprintf("%s%d", cl.Kind, cnt[cl.Kind])
		}
		cl.Tag = strings.ReplaceAll(cl.Tag, " ", "_")
	}
	return nil
}
