; C08 — end-to-end solvency as a lemma over the VERIFIED contract clauses of the four bridge handlers plus an
; ASSUMED faithful relayer. State, for one bridge b and one L1 denom d (the statement is per bridge and denom;
; the frame clauses of C01/C09 show other bridges, denoms and accounts are untouched):
;   esc  = bank_L1.bal[(bridgeAddr b, d)]          sup = bank_L2.supply[l2denom(b,d)]
;   ifd  = sum of deposit events emitted on L1, not yet finalized on L2
;   ifw  = sum of withdrawal events recorded on L2 (user + refund), not yet paid on L1
; Invariant  SOLV: esc = sup + ifd + ifw.
; Each "uses" line names the contract clause whose effect the transition transcribes; the check verifies that the
; clause still exists verbatim in the contract file (the clause itself is discharged against the code by its own check).
;
; uses github.com/initia-labs/OPinit/x/ophost/keeper.(MsgServer).InitiateTokenDeposit escrow :: err == nil ==> bank.bal == transfer(old(bank.bal), sender, bridgeAddr(b), d, a)
; uses github.com/initia-labs/OPinit/x/ophost/keeper.(MsgServer).FinalizeTokenWithdrawal payout_from_own_escrow :: err == nil ==> bank.bal == transfer(old(bank.bal), bridgeAddr(b), to, d, a)
; uses github.com/initia-labs/OPinit/x/opchild/keeper.(MsgServer).InitiateTokenWithdrawal burns_exactly_amount :: err == nil ==> bank.supply == old(bank.supply)[d := old(bank.supply)[d] - a]
; uses github.com/initia-labs/OPinit/x/opchild/keeper.(MsgServer).FinalizeTokenDeposit credit_or_refund_nothing_else :: err == nil && req.Sequence == n && !$evOpaque ==> (bank.bal == credited && bank.supply == old(bank.supply)[d := old(bank.supply)[d] + a] && NextL2Sequence == old(NextL2Sequence) && addrOK(1, req.To)) || (bank.bal == old(bank.bal) && bank.supply == old(bank.supply) && NextL2Sequence == l2seq + 1)
; uses github.com/initia-labs/OPinit/x/opchild/keeper.(MsgServer).FinalizeTokenDeposit noop_changes_nothing :: err == nil && req.Sequence < n ==> NextL1Sequence == old(NextL1Sequence) && NextL2Sequence == old(NextL2Sequence) && bank.bal == old(bank.bal) && bank.supply == old(bank.supply) && DenomPairs == old(DenomPairs) && auth.acc == old(auth.acc) && bank.meta == old(bank.meta)
; uses github.com/initia-labs/OPinit/x/ophost/keeper.(MsgServer).FinalizeTokenWithdrawal not_claimed_before :: err == nil ==> old(ProvenWithdrawals)[(b, h)] == None
(set-logic ALL)
(declare-const esc Int) (declare-const sup Int) (declare-const ifd Int) (declare-const ifw Int)
(declare-const esc1 Int) (declare-const sup1 Int) (declare-const ifd1 Int) (declare-const ifw1 Int)
(declare-const a Int)
(define-fun SOLV ((e Int) (s Int) (d Int) (w Int)) Bool (= e (+ s d w)))
(assert (SOLV esc sup ifd ifw))
(assert (>= a 0))

; lemma l1_deposit_preserves
; L1 InitiateTokenDeposit(a): escrow += a (clause escrow, depositor is not the escrow account); the event joins ifd.
(assert (= esc1 (+ esc a))) (assert (= sup1 sup)) (assert (= ifd1 (+ ifd a))) (assert (= ifw1 ifw))
; goal
(assert (not (SOLV esc1 sup1 ifd1 ifw1)))

; lemma l2_deposit_credit_preserves
; L2 FinalizeTokenDeposit at the expected sequence, credit outcome: supply += a; the relayed event leaves ifd (R: faithful relayer, amount equal).
(assert (= esc1 esc)) (assert (= sup1 (+ sup a))) (assert (= ifd1 (- ifd a))) (assert (= ifw1 ifw))
; goal
(assert (not (SOLV esc1 sup1 ifd1 ifw1)))

; lemma l2_deposit_refund_preserves
; L2 FinalizeTokenDeposit, refund outcome: no net mint; the deposit leaves ifd and exactly one withdrawal of the same amount joins ifw.
(assert (= esc1 esc)) (assert (= sup1 sup)) (assert (= ifd1 (- ifd a))) (assert (= ifw1 (+ ifw a)))
; goal
(assert (not (SOLV esc1 sup1 ifd1 ifw1)))

; lemma l2_deposit_noop_preserves
; a duplicate / replayed relay is a NOOP with no state change and consumes nothing in flight (the event was consumed the first time).
(assert (= esc1 esc)) (assert (= sup1 sup)) (assert (= ifd1 ifd)) (assert (= ifw1 ifw))
; goal
(assert (not (SOLV esc1 sup1 ifd1 ifw1)))

; lemma l2_withdrawal_preserves
; L2 InitiateTokenWithdrawal(a): supply -= a (clause burns_exactly_amount); one withdrawal event of amount a joins ifw.
(assert (= esc1 esc)) (assert (= sup1 (- sup a))) (assert (= ifd1 ifd)) (assert (= ifw1 (+ ifw a)))
; goal
(assert (not (SOLV esc1 sup1 ifd1 ifw1)))

; lemma l1_claim_preserves
; L1 FinalizeTokenWithdrawal(a): escrow -= a (clause payout_from_own_escrow); the claimed event leaves ifw; at most once (clause not_claimed_before).
(assert (= esc1 (- esc a))) (assert (= sup1 sup)) (assert (= ifd1 ifd)) (assert (= ifw1 (- ifw a)))
; goal
(assert (not (SOLV esc1 sup1 ifd1 ifw1)))

; lemma drained_means_escrow_equals_supply
; when nothing is in flight the escrow equals the L2 supply.
(assert (= ifd 0)) (assert (= ifw 0))
; goal
(assert (not (= esc sup)))
