; Spec functions: the independent statement of the documented formats and rules
; (specs/withdrawal_proving.md, specs/l2_output_oracle.md and the property statements).
; Everything here is over primitive sorts (Int, Bool, Bytes, Opt, Pair, arrays).
; "; literal" directives bind Go string literals to the named constants declared here.

; literal "ophost" LIT_ophost
; literal "opchild" LIT_opchild
; literal "l2/" LIT_l2prefix
(declare-const LIT_ophost Bytes)
(declare-const LIT_opchild Bytes)
(declare-const LIT_l2prefix Bytes)
(assert (= (blen LIT_ophost) 6))
(assert (= (blen LIT_opchild) 7))
(assert (= (blen LIT_l2prefix) 3))

; ---- uninterpreted library functions (assumed pure; see the assumption ledger) ----
(declare-fun be64 (Int) Bytes)                 ; 8 big-endian bytes of a uint64
(declare-fun le64 (Int) Bytes)
(declare-fun be32 (Int) Bytes)
(declare-fun b1 (Int) Bytes)
(declare-fun bslice (Bytes Int Int) Bytes)
(declare-fun bcmp (Bytes Bytes) Int)           ; bytes.Compare
(declare-fun bat (Bytes Int) Int)
(declare-fun fmtU64 (Int) Bytes)               ; strconv.FormatUint(x,10)
(declare-fun fmtBool (Bool) Bytes)
(declare-fun intStr (Int) Bytes)               ; math.Int.String
(declare-fun hexenc (Bytes) Bytes)             ; hex.EncodeToString
(declare-fun addrOK (Int Bytes) Bool)          ; codec id, bech32 string
(declare-fun addrBytes (Int Bytes) Bytes)
; A-CODEC: the bech32 address codecs reject the empty string ("empty address string is not allowed")
(assert (forall ((c Int) (s Bytes)) (! (=> (addrOK c s) (> (blen s) 0)) :pattern ((addrOK c s)))))
(declare-fun addrModule (Bytes Bytes) Bytes)   ; address.Module(name, derivation key)
(declare-fun moduleAddr (Bytes) Bytes)         ; authtypes.NewModuleAddress(name)
(declare-fun validDenom (Bytes) Bool)
(declare-fun sprintf._s_x (Bytes Bytes) Bytes)   ; fmt.Sprintf("%s%x", a, b)

; SHA3-256 over a concatenation of fields; the symbol records the layout (order, widths, endianness)
(declare-fun sha3.var (Bytes) Bytes)
(declare-fun sha3.b32 (Bytes) Bytes)
(declare-fun sha3.b32.b32 (Bytes Bytes) Bytes)
(declare-fun sha3.u64.var (Int Bytes) Bytes)
(declare-fun sha3.byte.b32.b32 (Int Bytes Bytes) Bytes)
(declare-fun sha3.u64.u64.b32.b32.b32.u64 (Int Int Bytes Bytes Bytes Int) Bytes)

; ---- time / finality -------------------------------------------------------------------
; an output proposed at l1time (ns) under a period (ns) is final at block time now (ns):
; comparison at one-second granularity, exactly as the property states it
(define-fun isFinal ((now Int) (l1time Int) (period Int)) Bool
  (>= (div now 1000000000) (div (+ l1time period) 1000000000)))

; counters stored in maps start at 1 when absent
(define-fun nextOr1 ((o (Opt Int))) Int (ite (= o (as None (Opt Int))) 1 (val o)))
; collections.Sequence: stored 0 (or absent) means "1 is next"
(define-fun seqOr1 ((v Int)) Int (ite (= v 0) 1 v))

; ---- bank ---------------------------------------------------------------------------------
(define-fun transfer ((bal (Array (Pair Bytes Bytes) Int)) (from Bytes) (to Bytes) (d Bytes) (a Int)) (Array (Pair Bytes Bytes) Int)
  (let ((b1 (store bal (mkpair from d) (- (select bal (mkpair from d)) a))))
    (store b1 (mkpair to d) (+ (select b1 (mkpair to d)) a))))

; ---- identifiers and commitments (published formats) -------------------------------------------
; bridge escrow address = address.Module("ophost", big-endian 8 bytes of the bridge id)
(define-fun bridgeAddr ((b Int)) Bytes (addrModule LIT_ophost (be64 b)))
; L2 denom = "l2/" ++ lowercase hex of sha3( be64(bridge id) ++ utf8(l1 denom) )
(define-fun l2denom ((b Int) (d Bytes)) Bytes (sprintf._s_x LIT_l2prefix (sha3.u64.var b d)))
; withdrawal leaf = sha3(sha3( be64 bridge ++ be64 seq ++ sha3(sender) ++ sha3(receiver) ++ sha3(denom) ++ be64 amount ))
(define-fun leaf ((b Int) (s Int) (from Bytes) (to Bytes) (d Bytes) (a Int)) Bytes
  (sha3.b32 (sha3.u64.u64.b32.b32.b32.u64 b s (sha3.var from) (sha3.var to) (sha3.var d) a)))
; inner node = sha3( min(a,b) ++ max(a,b) ) under the lexicographic byte order
(define-fun node ((a Bytes) (b Bytes)) Bytes (ite (>= (bcmp a b) 0) (sha3.b32.b32 b a) (sha3.b32.b32 a b)))
; output root = sha3( version byte ++ storage root (32) ++ last block hash (32) )
(define-fun outputRoot ((v Int) (sr Bytes) (lbh Bytes)) Bytes (sha3.byte.b32.b32 v sr lbh))
; root from a proof: fold the leaf through the sibling list with the node rule
(define-fun-rec foldNode ((d Bytes) (p (Array Int Bytes)) (n Int)) Bytes
  (ite (<= n 0) d (node (foldNode d p (- n 1)) (select p (- n 1)))))

; ---- message routing (assumed pure functions of the message) ---------------------------------------
(declare-fun msgSigners (Iface) (GSeq Bytes))    ; signers declared by the cosmos.msg.v1.signer option

; ---- bridge metadata (A-JSON: decoding is a pure function of the bytes) -------------------------------
(declare-fun permHas (Bytes) Bool)      ; metadata parses as the documented structure and has the perm_channels key
(declare-fun jsonObj (Bytes) (Array Bytes (Opt Iface)))   ; json.Unmarshal into map[string]interface{} (A-JSON)
(declare-fun jsonObjOK (Bytes) Bool)

; ---- transactions (assumed pure accessors) -----------------------------------------------------------
(declare-fun txMsgs (Iface) (GSeq Iface))
(declare-fun feePayer (Iface) Bytes)
(declare-fun feeGranter (Iface) Bytes)
(declare-fun addrStr (Int Bytes) Bytes)
(declare-fun addrStrOK (Int Bytes) Bool)

; ---- validators (assumed pure functions) ------------------------------------------------------------------
(declare-fun pkAddress (Iface) Bytes)      ; consensus address of a public key
(declare-fun pkType (Iface) Bytes)
(declare-fun pkBytes (Iface) Bytes)        ; raw bytes of a public key
(declare-fun valStr (Bytes) Bytes)         ; sdk.ValAddress.String
(declare-fun jsonIfaceOK (Bytes) Bool)     ; codec.UnmarshalInterfaceJSON succeeds on these bytes
(declare-fun jsonIface (Bytes) Iface)
(declare-fun anyOK (Iface) Bool)           ; codectypes.NewAnyWithValue succeeds

; ---- oracle path ----------------------------------------------------------------------------------------------
; sign bytes of a vote extension: length-delimited protobuf of CanonicalVoteExtension{extension, height, round, chain id}
(declare-fun canonVEBytes (Bytes Int Int Bytes) Bytes)   ; (chain id, height, round, extension)
