; Spec functions: the independent statement of the documented formats and rules.
; Everything here is over primitive sorts (Int, Bool, Bytes, Opt, Pair, arrays).

; an output proposed at l1time (ns) under a period (ns) is final at block time now (ns):
; comparison at one-second granularity, exactly as the property states it
(define-fun isFinal ((now Int) (l1time Int) (period Int)) Bool
  (>= (div now 1000000000) (div (+ l1time period) 1000000000)))

; counters stored in maps start at 1 when absent
(define-fun nextOr1 ((o (Opt Int))) Int (ite ((_ is Some) o) (val o) 1))
