#!/bin/sh
# usage: run.sh [name-regex]   — applies each mutant patch to a scratch worktree of /repo (outside /repo and /verif),
# runs the property's quick check against it and expects exit 1 with a VIOLATION line.
# SELFTEST_JOBS=n runs n mutants at a time (default 1); run.sh --one <name> handles a single mutant (used internally).
cd "$(dirname "$0")" || exit 2
one() {
  n=$1; j=mutants/$n.json
  prop=$(jq -r .property "$j"); expect=$(jq -r .expect "$j")
  W=$(mktemp -d /tmp/verif-selftest.XXXXXX)
  for try in 1 2 3 4 5 6 7 8 9 10; do   # several runners may create worktrees at once: git serialises them with a lock
    git -C /repo worktree add -q --detach "$W/r" HEAD >/dev/null 2>&1 && break
    sleep 1
  done
  [ -d "$W/r" ] || { echo "MUTANT $n: could not create a scratch worktree"; rm -rf "$W"; return; }
  if ! git -C "$W/r" apply "$PWD/mutants/$n.patch" 2>/dev/null; then
    git -C /repo worktree remove --force "$W/r" >/dev/null 2>&1; rm -rf "$W"
    if [ -n "${SELFTEST_LENIENT:-}" ]; then echo "skipped $n: patch does not apply to this HEAD"; return; fi
    echo "MUTANT $n: patch does not apply"; return
  fi
  if ! (cd "$W/r" && GOFLAGS= GOPROXY=off go build ./x/... >/dev/null 2>&1); then echo "MUTANT $n: does not compile"; git -C /repo worktree remove --force "$W/r" >/dev/null 2>&1; rm -rf "$W"; return; fi
  out=$(VERIF_TIER=quick VERIF_NO_SELFTEST=1 VERIF_EVIDENCE_DIR="$W/ev" VERIF_OUT_DIR="$W/out" ../bin/govc check "$prop" --tier quick -repo "$W/r" 2>&1); rc=$?
  git -C /repo worktree remove --force "$W/r" >/dev/null 2>&1; rm -rf "$W"
  if [ $rc -eq 1 ] && echo "$out" | grep -q "^VIOLATION property=$prop"; then
    echo "killed   $n ($prop): $(echo "$out" | grep -c '^VIOLATION') violation line(s), $(echo "$out" | grep '^VIOLATION' | grep -vc 'no-failing-input-found') replayed on the real code"
  else
    echo "SURVIVED $n ($prop) rc=$rc"; echo "$out" | tail -3 | sed 's/^/    /'
  fi
}
if [ "${1:-}" = "--one" ]; then one "$2"; exit 0; fi
PAT="${1:-.}"
LOG=$(mktemp /tmp/verif-selftest-log.XXXXXX)
for j in mutants/*.json; do
  n=$(basename "$j" .json)
  echo "$n" | grep -Eq "$PAT" && echo "$n"
done | xargs -P "${SELFTEST_JOBS:-1}" -I{} sh "$PWD/run.sh" --one {} | tee "$LOG"
PASS=$(grep -c '^killed ' "$LOG"); FAIL=$(grep -Ec '^(SURVIVED|MUTANT) ' "$LOG")
FAILED=$(grep -E '^(SURVIVED|MUTANT) ' "$LOG" | awk '{print $2}' | tr -d ':' | tr '\n' ' ')
rm -f "$LOG"
echo "selftest: killed=$PASS survived=$FAIL $FAILED"
[ "$FAIL" -eq 0 ]
