#!/usr/bin/env python3
"""mkmutant.py <name> <property> <file> <old> <new> [expected-obligation-substring]
Creates selftest/mutants/<name>.patch (+ .json) from a textual replacement against /repo HEAD."""
import sys, subprocess, json, os, tempfile, shutil
name, prop, path, old, new = sys.argv[1:6]
expect = sys.argv[6] if len(sys.argv) > 6 else ""
src = open(os.path.join('/repo', path)).read()
assert src.count(old) >= 1, "pattern not found: " + old
tmp = tempfile.mkdtemp(prefix='verif-mut.')
try:
    a = os.path.join(tmp, 'a', path); b = os.path.join(tmp, 'b', path)
    os.makedirs(os.path.dirname(a)); os.makedirs(os.path.dirname(b))
    open(a, 'w').write(src); open(b, 'w').write(src.replace(old, new, 1))
    d = subprocess.run(['diff', '-u', 'a/' + path, 'b/' + path], cwd=tmp, capture_output=True, text=True).stdout
finally:
    shutil.rmtree(tmp)
out = os.path.join(os.path.dirname(os.path.abspath(__file__)), 'mutants', name)
open(out + '.patch', 'w').write(d)
json.dump({"name": name, "property": prop, "file": path, "expect": expect}, open(out + '.json', 'w'), indent=1)
print("wrote", out + '.patch')
