#!/bin/sh
# run_refactors.sh [regex] : must-pass corpus. Applies each behaviour-preserving refactoring (written by sub-agents, each
# builds and passes the repository's tests) to /repo, runs all 20 quick checks, undoes it. Every check must stay silent,
# except for the refactorings listed in refactors/KNOWN_BRITTLE (an invariant names a local that the edit removed, or a loop
# moved into a helper that has no contract) - those are reported as "brittle (expected)".
cd "$(dirname "$0")" || exit 2
PAT="${1:-.}"; q=0; b=0; bad=0
# work on a snapshot (engine binary, spec, known findings, replay drivers, repository HEAD) so that the tree can be edited meanwhile
SNAP=$(mktemp -d /tmp/verif-snap.XXXXXX)
trap 'rm -rf "$SNAP"' EXIT INT TERM
mkdir -p "$SNAP/selftest"
cp -r ../spec ../known_findings.json ../replay ../bin "$SNAP"/
cp ../selftest/run.sh "$SNAP/selftest/" 2>/dev/null
export VERIF_DIR="$SNAP" GOVC_BIN="$SNAP/bin/govc" REFRUN_REV=$(git -C /repo rev-parse HEAD)
for f in refactors/*.diff; do
  n=$(basename "$f" .diff); echo "$n" | grep -Eq "$PAT" || continue
  out=$(sh ../tools/refrun.sh "$PWD/$f" 2>&1 | grep -v conda)
  if echo "$out" | grep -q "^quiet"; then q=$((q+1)); echo "quiet   $n"
  elif grep -q "^$n\b" refactors/KNOWN_BRITTLE; then b=$((b+1)); echo "brittle $n (expected): $(grep "^$n\b" refactors/KNOWN_BRITTLE | cut -d' ' -f2-)"
  else bad=$((bad+1)); echo "ALARM   $n"; echo "$out" | head -5; fi
done
echo "refactors: quiet=$q brittle(expected)=$b unexpected alarms=$bad"
[ $bad -eq 0 ]
